//! C13 -- CONNECT of the other protocol family is identified, not misparsed.
use crate::fe;
use crate::gh::*;
use crate::model::utf8_model;

/// Protocol::new over every name of exactly N bytes and every level (one harness per N)
#[inline(always)]
fn proto_new<const N: usize>(s: &mut Src) {
    let name: [u8; N] = s.bytes();
    let level = s.u8();
    let is = |w: &[u8]| eq_bytes(&name, w);
    let want = if is(b"MQIsdp") && level == 3 {
        Some(mp::Protocol::V310)
    } else if is(b"MQTT") && level == 4 {
        Some(mp::Protocol::V311)
    } else if is(b"MQTT") && level == 5 {
        Some(mp::Protocol::V500)
    } else {
        None
    };
    let mut accepted = false;
    let mut inv_string = false;
    match mp::Protocol::new(&name, level) {
        Ok(p) => {
            accepted = true;
            vassert!(want == Some(p), "C13|protocol_new.accepts|Protocol::new accepts a name/level pair other than (MQIsdp,3), (MQTT,4), (MQTT,5), or maps it to the wrong version");
        }
        Err(e) => {
            vassert!(want.is_none(), "C13|protocol_new.rejects|Protocol::new rejects a valid name/level pair");
            match &e {
                mp::Error::InvalidProtocol(n, l) => {
                    // a non-UTF-8 name cannot be carried verbatim; either rejection is "invalid protocol"
                    vassert!(*l == level && (!utf8_model(&name) || eq_bytes(n.as_bytes(), &name)), "C13|protocol_new.payload|InvalidProtocol does not carry the offending name and level");
                    vcover!(true, "invalid protocol");
                }
                mp::Error::InvalidString => {
                    vassert!(!utf8_model(&name), "C13|protocol_new.utf8|valid UTF-8 protocol name reported as InvalidString");
                    inv_string = true;
                }
                _ => {
                    vassert!(false, "C13|protocol_new.error|unexpected error variant");
                }
            }
            done(e);
        }
    }
    vcover!(accepted || !(N == 4 || N == 6), "accepted (where a valid name of this length exists)");
    vcover!(inv_string || N == 0, "invalid string (non-empty names)");
}
pub fn proto_new0(s: &mut Src) { proto_new::<0>(s) }
pub fn proto_new1(s: &mut Src) { proto_new::<1>(s) }
pub fn proto_new3(s: &mut Src) { proto_new::<3>(s) }
pub fn proto_new4(s: &mut Src) { proto_new::<4>(s) }
pub fn proto_new5(s: &mut Src) { proto_new::<5>(s) }
pub fn proto_new6(s: &mut Src) { proto_new::<6>(s) }
pub fn proto_new7(s: &mut Src) { proto_new::<7>(s) }

/// the wire entry point: protocol name of exactly N bytes + level through Protocol::decode_async
#[inline(always)]
fn proto_wire<const N: usize, const L: usize>(s: &mut Src) {
    let name: [u8; N] = s.bytes();
    let level = s.u8();
    let mut frame = [0u8; L];
    frame[1] = N as u8;
    let mut i = 0;
    while i < N { frame[2 + i] = name[i]; i += 1; }
    frame[2 + N] = level;
    let is = |w: &[u8]| eq_bytes(&name, w);
    let want = if is(b"MQIsdp") && level == 3 { Some(mp::Protocol::V310) }
        else if is(b"MQTT") && level == 4 { Some(mp::Protocol::V311) }
        else if is(b"MQTT") && level == 5 { Some(mp::Protocol::V500) }
        else { None };
    let mut rd: &[u8] = &frame;
    let r = dec!(mp::Protocol::decode_async(&mut rd));
    match &r {
        Ok(p) => {
            vassert!(want == Some(*p), "C13|protocol_wire.accepts|Protocol::decode_async accepts a name/level pair other than (MQIsdp,3), (MQTT,4), (MQTT,5)");
            vassert!(rd.len() == 0, "C13|protocol_wire.consumed|Protocol::decode_async did not consume exactly name and level");
        }
        Err(e) => {
            vassert!(want.is_none(), "C13|protocol_wire.rejects|Protocol::decode_async rejects a valid name/level pair");
            vassert!(matches!(e, mp::Error::InvalidProtocol(_, l) if *l == level) || matches!(e, mp::Error::InvalidString), "C13|protocol_wire.error|wrong error for an invalid protocol name/level");
        }
    }
    vcover!(r.is_ok() || !(N == 4 || N == 6), "accepted (where a valid name of this length exists)");
    vcover!(r.is_err(), "rejected");
    done(r);
}
pub fn proto_wire4(s: &mut Src) { proto_wire::<4, 7>(s) }
pub fn proto_wire5(s: &mut Src) { proto_wire::<5, 8>(s) }
pub fn proto_wire6(s: &mut Src) { proto_wire::<6, 9>(s) }
pub fn proto_wire7(s: &mut Src) { proto_wire::<7, 10>(s) }
pub fn proto_wire8(s: &mut Src) { proto_wire::<8, 11>(s) }

/// a v3.1.1 / v3.1 CONNECT given to the v5 decoders, then resumed with the v3 known-protocol entry
#[inline(always)]
fn v3_into_v5<const L: usize, const NL: usize>(s: &mut Src, name: &[u8; NL], level: u8, proto: mp::Protocol) {
    let ka = s.u16();
    let c = s.u8();
    // fixed header + protocol name + level + flags(clean session) + keep alive + client id "c"
    let mut frame = [0u8; L];
    frame[0] = 0x10;
    frame[1] = (L - 2) as u8;
    frame[2] = 0;
    frame[3] = NL as u8;
    let mut i = 0;
    while i < NL { frame[4 + i] = name[i]; i += 1; }
    frame[4 + NL] = level;
    frame[5 + NL] = 0x02;
    frame[6 + NL] = (ka >> 8) as u8;
    frame[7 + NL] = (ka & 0xff) as u8;
    frame[8 + NL] = 0;
    frame[9 + NL] = 1;
    frame[10 + NL] = c;
    set_classes(usize::MAX, usize::MAX, usize::MAX);
    vassume!(utf8_model(&[c]));
    // native decode by the matching family
    let native = fe::v3::blocking(&frame);
    // the other family: every front-end names the version found
    let rb = fe::v5::blocking(&frame);
    vassert!(matches!(&rb, Err(mp::v5::ErrorV5::Common(mp::Error::UnexpectedProtocol(p))) if *p == proto), "C13|cross.v3_into_v5.blocking|v5 blocking decoder does not report UnexpectedProtocol(version found)");
    let (rs, _) = fe::v5::strict(0x10, (L - 2) as u32, 2, &frame[2..]);
    vassert!(matches!(&rs, Err(mp::v5::ErrorV5::Common(mp::Error::UnexpectedProtocol(p))) if *p == proto), "C13|cross.v3_into_v5.strict|v5 strict decoder does not report UnexpectedProtocol(version found)");
    // body decoder: consumed no more than protocol name and level; resume with the v3 entry point
    let mut rd: &[u8] = &frame[2..];
    let h5 = mp::v5::Header::new(mp::v5::PacketType::Connect, false, mp::QoS::Level0, false, (L - 2) as u32);
    let r5 = dec!(mp::v5::Connect::decode_async(&mut rd, h5));
    vassert!(matches!(&r5, Err(mp::v5::ErrorV5::Common(mp::Error::UnexpectedProtocol(p))) if *p == proto), "C13|cross.v3_into_v5.body|v5 CONNECT decoder does not report UnexpectedProtocol(version found)");
    vassert!(rd.len() == L - 2 - (2 + NL + 1), "C13|cross.v3_into_v5.consumed|more (or less) than protocol name and level was consumed before the protocol mismatch was reported");
    let resumed = dec!(mp::v3::Connect::decode_with_protocol(&mut rd, proto));
    match (&resumed, &native) {
        (Ok(a), Ok(Some(mp::v3::Packet::Connect(b)))) => {
            vassert!(a == b, "C13|cross.v3_into_v5.resume|resuming with the matching family's known-protocol entry differs from the native decode");
            vassert!(a.keep_alive == ka && a.protocol == proto, "C13|cross.v3_into_v5.fields|resumed CONNECT has wrong fields");
            vcover!(true, "resumed");
        }
        _ => {
            vassert!(false, "C13|cross.v3_into_v5.resume_fails|resumed or native decode failed on a valid CONNECT");
        }
    }
    done(native); done(rb); done(rs); done(r5); done(resumed);
}
/// identification only, on a fully concrete frame: whatever a decoder that fails to identify the
/// version goes on to do with the rest of the packet stays a concrete execution (with symbolic
/// content such a decoder reads lengths out of content bytes and the query above does not decide)
fn v3_into_v5_ident<const L: usize, const NL: usize>(s: &mut Src, name: &[u8; NL], level: u8, proto: mp::Protocol) {
    let _ = s.u8();
    let mut frame = [0u8; L];
    frame[0] = 0x10;
    frame[1] = (L - 2) as u8;
    frame[3] = NL as u8;
    let mut i = 0;
    while i < NL { frame[4 + i] = name[i]; i += 1; }
    frame[4 + NL] = level;
    frame[5 + NL] = 0x02;
    frame[7 + NL] = 60;
    frame[9 + NL] = 1;
    frame[10 + NL] = b'c';
    let (rs, _) = fe::v5::strict(0x10, (L - 2) as u32, 2, &frame[2..]);
    vassert!(matches!(&rs, Err(mp::v5::ErrorV5::Common(mp::Error::UnexpectedProtocol(p))) if *p == proto), "C13|cross.v3_into_v5.strict|v5 strict decoder does not report UnexpectedProtocol(version found)");
    let rb = fe::v5::blocking(&frame);
    vassert!(matches!(&rb, Err(mp::v5::ErrorV5::Common(mp::Error::UnexpectedProtocol(p))) if *p == proto), "C13|cross.v3_into_v5.blocking|v5 blocking decoder does not report UnexpectedProtocol(version found)");
    vcover!(true, "identified");
    done(rs); done(rb);
}
pub fn v311_into_v5_ident(s: &mut Src) { v3_into_v5_ident::<15, 4>(s, b"MQTT", 4, mp::Protocol::V311) }
pub fn v310_into_v5_ident(s: &mut Src) { v3_into_v5_ident::<17, 6>(s, b"MQIsdp", 3, mp::Protocol::V310) }
pub fn v311_into_v5(s: &mut Src) { v3_into_v5::<15, 4>(s, b"MQTT", 4, mp::Protocol::V311) }
pub fn v310_into_v5(s: &mut Src) { v3_into_v5::<17, 6>(s, b"MQIsdp", 3, mp::Protocol::V310) }

/// a v5 CONNECT given to the v3 decoders, then resumed with the v5 known-protocol entry
pub fn v5_into_v3(s: &mut Src) {
    let ka = s.u16();
    let c = s.u8();
    let sei = s.u32();
    const L: usize = 21;
    let frame: [u8; L] = [0x10, 19, 0, 4, b'M', b'Q', b'T', b'T', 5, 0x02, (ka >> 8) as u8, (ka & 0xff) as u8,
        5, 0x11, (sei >> 24) as u8, (sei >> 16) as u8, (sei >> 8) as u8, sei as u8, 0, 1, c];
    set_classes(usize::MAX, usize::MAX, usize::MAX);
    vassume!(utf8_model(&[c]));
    let native = fe::v5::blocking(&frame);
    let rb = fe::v3::blocking(&frame);
    vassert!(matches!(&rb, Err(mp::Error::UnexpectedProtocol(mp::Protocol::V500))), "C13|cross.v5_into_v3.blocking|v3 blocking decoder does not report UnexpectedProtocol(V500)");
    let (rs, _) = fe::v3::strict(0x10, 19, 2, &frame[2..]);
    vassert!(matches!(&rs, Err(mp::Error::UnexpectedProtocol(mp::Protocol::V500))), "C13|cross.v5_into_v3.strict|v3 strict decoder does not report UnexpectedProtocol(V500)");
    let mut rd: &[u8] = &frame[2..];
    let r3 = dec!(mp::v3::Connect::decode_async(&mut rd));
    vassert!(matches!(&r3, Err(mp::Error::UnexpectedProtocol(mp::Protocol::V500))), "C13|cross.v5_into_v3.body|v3 CONNECT decoder does not report UnexpectedProtocol(V500)");
    vassert!(rd.len() == 19 - 7, "C13|cross.v5_into_v3.consumed|more (or less) than protocol name and level was consumed before the protocol mismatch was reported");
    let h5 = mp::v5::Header::new(mp::v5::PacketType::Connect, false, mp::QoS::Level0, false, 19);
    let resumed = dec!(mp::v5::Connect::decode_with_protocol(&mut rd, h5, mp::Protocol::V500));
    match (&resumed, &native) {
        (Ok(a), Ok(Some(mp::v5::Packet::Connect(b)))) => {
            vassert!(a == b, "C13|cross.v5_into_v3.resume|resuming with the matching family's known-protocol entry differs from the native decode");
            vassert!(a.keep_alive == ka && a.properties.session_expiry_interval == Some(sei), "C13|cross.v5_into_v3.fields|resumed CONNECT has wrong fields");
            vcover!(true, "resumed");
        }
        _ => {
            vassert!(false, "C13|cross.v5_into_v3.resume_fails|resumed or native decode failed on a valid CONNECT");
        }
    }
    done(native); done(rb); done(rs); done(r3); done(resumed);
}

scenarios! {
    #[kani::unwind(9)] #[kani::stub(simdutf8::basic::from_utf8, crate::model::from_utf8_model_stub)]
    c13_protocol_new0 [1] => proto_new0;
    #[kani::unwind(9)] #[kani::stub(simdutf8::basic::from_utf8, crate::model::from_utf8_model_stub)]
    c13_protocol_new1 [2] => proto_new1;
    #[kani::unwind(9)] #[kani::stub(simdutf8::basic::from_utf8, crate::model::from_utf8_model_stub)]
    c13_protocol_new3 [4] => proto_new3;
    #[kani::unwind(9)] #[kani::stub(simdutf8::basic::from_utf8, crate::model::from_utf8_model_stub)]
    c13_protocol_new4 [5] => proto_new4;
    #[kani::unwind(9)] #[kani::stub(simdutf8::basic::from_utf8, crate::model::from_utf8_model_stub)]
    c13_protocol_new5 [6] => proto_new5;
    #[kani::unwind(9)] #[kani::stub(simdutf8::basic::from_utf8, crate::model::from_utf8_model_stub)]
    c13_protocol_new6 [7] => proto_new6;
    #[kani::unwind(9)] #[kani::stub(simdutf8::basic::from_utf8, crate::model::from_utf8_model_stub)]
    c13_protocol_new7 [8] => proto_new7;
    #[kani::unwind(12)]
    #[kani::stub(<mqtt_proto_sync::Error as std::convert::From<std::io::Error>>::from, crate::model::from_io_eof_stub)]
    #[kani::stub(<std::io::Error as std::string::ToString>::to_string, crate::model::io_to_string_stub)]
    #[kani::stub(simdutf8::basic::from_utf8, crate::model::from_utf8_model_stub)]
    c13_protocol_wire4 [5] => proto_wire4;
    #[kani::unwind(12)]
    #[kani::stub(<mqtt_proto_sync::Error as std::convert::From<std::io::Error>>::from, crate::model::from_io_eof_stub)]
    #[kani::stub(<std::io::Error as std::string::ToString>::to_string, crate::model::io_to_string_stub)]
    #[kani::stub(simdutf8::basic::from_utf8, crate::model::from_utf8_model_stub)]
    c13_protocol_wire5 [6] => proto_wire5;
    #[kani::unwind(12)]
    #[kani::stub(<mqtt_proto_sync::Error as std::convert::From<std::io::Error>>::from, crate::model::from_io_eof_stub)]
    #[kani::stub(<std::io::Error as std::string::ToString>::to_string, crate::model::io_to_string_stub)]
    #[kani::stub(simdutf8::basic::from_utf8, crate::model::from_utf8_model_stub)]
    c13_protocol_wire6 [7] => proto_wire6;
    #[kani::unwind(12)]
    #[kani::stub(<mqtt_proto_sync::Error as std::convert::From<std::io::Error>>::from, crate::model::from_io_eof_stub)]
    #[kani::stub(<std::io::Error as std::string::ToString>::to_string, crate::model::io_to_string_stub)]
    #[kani::stub(simdutf8::basic::from_utf8, crate::model::from_utf8_model_stub)]
    c13_protocol_wire7 [8] => proto_wire7;
    #[kani::unwind(12)]
    #[kani::stub(<mqtt_proto_sync::Error as std::convert::From<std::io::Error>>::from, crate::model::from_io_eof_stub)]
    #[kani::stub(<std::io::Error as std::string::ToString>::to_string, crate::model::io_to_string_stub)]
    #[kani::stub(simdutf8::basic::from_utf8, crate::model::from_utf8_model_stub)]
    c13_protocol_wire8 [9] => proto_wire8;
    #[kani::unwind(9)]
    #[kani::stub(<mqtt_proto_sync::Error as std::convert::From<std::io::Error>>::from, crate::model::from_io_eof_stub)]
    #[kani::stub(<std::io::Error as std::string::ToString>::to_string, crate::model::io_to_string_stub)]
    #[kani::stub(simdutf8::basic::from_utf8, crate::model::from_utf8_class_stub)]
    c13_v311_into_v5_ident [1] => v311_into_v5_ident;
    #[kani::unwind(9)]
    #[kani::stub(<mqtt_proto_sync::Error as std::convert::From<std::io::Error>>::from, crate::model::from_io_eof_stub)]
    #[kani::stub(<std::io::Error as std::string::ToString>::to_string, crate::model::io_to_string_stub)]
    #[kani::stub(simdutf8::basic::from_utf8, crate::model::from_utf8_class_stub)]
    c13_v310_into_v5_ident [1] => v310_into_v5_ident;
    #[kani::unwind(9)]
    #[kani::stub(<mqtt_proto_sync::Error as std::convert::From<std::io::Error>>::from, crate::model::from_io_eof_stub)]
    #[kani::stub(<std::io::Error as std::string::ToString>::to_string, crate::model::io_to_string_stub)]
    #[kani::stub(simdutf8::basic::from_utf8, crate::model::from_utf8_class_stub)]
    c13_v311_into_v5 [3] => v311_into_v5;
    #[kani::unwind(9)]
    #[kani::stub(<mqtt_proto_sync::Error as std::convert::From<std::io::Error>>::from, crate::model::from_io_eof_stub)]
    #[kani::stub(<std::io::Error as std::string::ToString>::to_string, crate::model::io_to_string_stub)]
    #[kani::stub(simdutf8::basic::from_utf8, crate::model::from_utf8_class_stub)]
    c13_v310_into_v5 [3] => v310_into_v5;
    #[kani::unwind(9)]
    #[kani::stub(<mqtt_proto_sync::Error as std::convert::From<std::io::Error>>::from, crate::model::from_io_eof_stub)]
    #[kani::stub(<std::io::Error as std::string::ToString>::to_string, crate::model::io_to_string_stub)]
    #[kani::stub(simdutf8::basic::from_utf8, crate::model::from_utf8_class_stub)]
    c13_v5_into_v3 [7] => v5_into_v3;
}
