//! Lemma: the byte-wise UTF-8 model used by the class stubs equals `core::str::from_utf8`
//! for every byte string of the lengths the packet-level scenarios use.
use crate::gh::*;

#[inline(always)]
fn lemma<const N: usize>(s: &mut Src) {
    let b: [u8; N] = s.bytes();
    let m = utf8_model(&b);
    let c = core::str::from_utf8(&b).is_ok();
    vassert!(m == c, "C12|lemma.utf8_model|the UTF-8 model differs from core::str::from_utf8");
    vcover!(m && (N == 1 || b[0] >= 0x80), "valid (multi-byte from two bytes on)");
    vcover!(!m, "invalid");
}
pub fn l1(s: &mut Src) { lemma::<1>(s) }
pub fn l2(s: &mut Src) { lemma::<2>(s) }
pub fn l3(s: &mut Src) { lemma::<3>(s) }
pub fn l4(s: &mut Src) { lemma::<4>(s) }
pub fn l5(s: &mut Src) { lemma::<5>(s) }

scenarios! {
    #[kani::unwind(8)] lemma_utf8_1 [1] => l1;
    #[kani::unwind(8)] lemma_utf8_2 [2] => l2;
    #[kani::unwind(8)] lemma_utf8_3 [3] => l3;
    #[kani::unwind(8)] lemma_utf8_4 [4] => l4;
    #[kani::unwind(9)] lemma_utf8_5 [5] => l5;
}
