//! C15 -- variable-byte-integer and length helper laws; complete input domains.
use crate::mp;
use crate::mp::Encodable;
use crate::rt::Src;
use crate::spec::varint;
use std::convert::TryFrom;

/// var_int_len / total_len / header_len / remaining_len over the whole usize domain
pub fn len_helpers(s: &mut Src) {
    let v = s.u64() as usize;
    let w = varint::width(v as u64);
    match mp::var_int_len(v) {
        Ok(k) => {
            vassert!(w == Some(k), "C15|var_int_len.value|var_int_len differs from the minimal width");
            vcover!(k == 4, "four bytes");
        }
        Err(e) => {
            vassert!(w.is_none(), "C15|var_int_len.reject|var_int_len rejects a representable value");
            vassert!(matches!(e, mp::Error::InvalidVarByteInt), "C15|var_int_len.error|wrong error variant");
            crate::rt::done(e);
        }
    }
    match mp::total_len(v) {
        Ok(t) => {
            vassert!(w.is_some(), "C15|total_len.accepts_oversize|total_len accepts a remaining length >= 268435456");
            let k = w.unwrap();
            vassert!(t == v + 1 + k, "C15|total_len.value|total != remaining + 1 + width");
            vassert!(mp::header_len(t) == 1 + k, "C15|header_len.inverse|header_len(total_len(v)) wrong");
            vassert!(mp::remaining_len(t) == v, "C15|remaining_len.inverse|remaining_len(total_len(v)) != v");
            vcover!(v == 268_435_455, "maximum");
            vcover!(v == 16_384, "three byte boundary");
        }
        Err(e) => {
            vassert!(w.is_none(), "C15|total_len.reject|total_len rejects a representable remaining length");
            vassert!(matches!(e, mp::Error::InvalidVarByteInt), "C15|total_len.error|wrong error variant");
            vcover!(v == 268_435_456, "first invalid");
            crate::rt::done(e);
        }
    }
}

/// the writer (reached through SubscribeProperties::encode, which writes the subscription id
/// with write_var_int) for every value below 2^28: minimal form, reported size
pub fn writer(s: &mut Src) {
    let v = s.u32();
    vassume!((v as u64) <= varint::VARINT_MAX);
    let id = mp::v5::VarByteInt::try_from(v);
    vassert!(id.is_ok(), "C15|varbyteint.try_from.reject|VarByteInt::try_from rejects a value < 2^28");
    let id = id.unwrap();
    vassert!(id.value() == v, "C15|varbyteint.value|value() differs");
    let props = mp::v5::SubscribeProperties { subscription_id: Some(id), user_properties: Vec::new() };
    let k = varint::width(v as u64).unwrap();
    let mut arr = [0xEEu8; 8];
    let left;
    {
        let mut w: &mut [u8] = &mut arr[..];
        let r = props.encode(&mut w);
        vassert!(r.is_ok(), "C15|write_var_int.io|array writer failed");
        left = w.len();
    }
    let written = 8 - left;
    vassert!(written == 2 + k, "C15|write_var_int.len|bytes written differ from 1 + 1 + width");
    vassert!(props.encode_len() == 2 + k, "C15|write_var_int.encode_len|reported size differs from 1 + 1 + width");
    vassert!(arr[0] == (1 + k) as u8, "C15|props.len_byte|property length byte wrong");
    vassert!(arr[1] == 0x0B, "C15|props.id|subscription identifier id wrong");
    let mut i = 0;
    while i < 4 {
        if i < k {
            vassert!(arr[2 + i] == varint::byte(v as u64, i), "C15|write_var_int.bytes|emitted byte differs from the minimal encoding");
        }
        i += 1;
    }
    vassert!(arr[2 + k] == 0xEE, "C15|write_var_int.overrun|wrote past the reported size");
    vcover!(k == 1, "one byte");
    vcover!(k == 4, "four bytes");
    crate::rt::done(props);
}

pub fn varbyteint_threshold(s: &mut Src) {
    let v = s.u32();
    match mp::v5::VarByteInt::try_from(v) {
        Ok(x) => {
            vassert!((v as u64) <= varint::VARINT_MAX, "C15|varbyteint.try_from.accepts_oversize|VarByteInt accepts >= 2^28");
            vassert!(x.value() == v, "C15|varbyteint.value|value() differs");
            vcover!(v == 268_435_455, "max");
        }
        Err(e) => {
            vassert!((v as u64) > varint::VARINT_MAX, "C15|varbyteint.try_from.reject|VarByteInt rejects < 2^28");
            vcover!(v == 268_435_456, "first invalid");
            crate::rt::done(e);
        }
    }
}

/// the standalone reader (decode_var_int, reached through the public decode_raw_header)
/// on every pattern of up to five length bytes, all input lengths 0..=6
pub fn reader(s: &mut Src) {
    let n = s.u8() as usize;
    vassume!(n <= 6);
    let buf: [u8; 6] = s.bytes();
    let mut rd: &[u8] = &buf[..n];
    let r = dec!(mp::decode_raw_header(&mut rd));
    let used = n - rd.len();
    let expect = if n == 0 { Err(()) } else { varint::read(&buf[1..n]) };
    match r {
        Ok((typ, rem)) => {
            vassert!(matches!(expect, Ok(Some(_))), "C15|decode_var_int.accepts|reader accepted where the reference does not");
            if let Ok(Some((v, k))) = expect {
                vassert!(typ == buf[0], "C15|decode_raw_header.type|first byte not returned");
                vassert!(rem == v, "C15|decode_var_int.value|decoded value differs from the reference");
                vassert!(used == 1 + k, "C15|decode_var_int.consumed|bytes consumed differ from the encoding length");
                vcover!(k == 4, "four byte form");
                vcover!(k == 2 && v < 128, "non-minimal form");
            }
        }
        Err(e) => {
            if e.is_eof() {
                vassert!(expect.is_err(), "C15|decode_var_int.eof|reader reports incomplete on a complete integer");
                vcover!(n == 3, "truncated");
            } else {
                vassert!(matches!(e, mp::Error::InvalidVarByteInt), "C15|decode_var_int.error|wrong error variant");
                vassert!(matches!(expect, Ok(None)), "C15|decode_var_int.rejects|reader rejects an encoding of at most four bytes");
                vassert!(used == 5, "C15|decode_var_int.reject_consumed|rejected after other than 1 + 4 bytes");
                vcover!(true, "five continuation bytes");
            }
            crate::rt::done(e);
        }
    }
}

scenarios! {
    c15_len_helpers [8] => len_helpers;
    #[kani::unwind(6)]
    c15_writer [4] => writer;
    c15_varbyteint_threshold [4] => varbyteint_threshold;
    #[kani::unwind(8)]
    #[kani::stub(<mqtt_proto_sync::Error as std::convert::From<std::io::Error>>::from, crate::model::from_io_eof_stub)]
    c15_reader [7] => reader;
}
