//! C17 -- shared-subscription accessors and comparisons are derived from the filter text.
use crate::gh::*;
use std::cmp::Ordering;
use std::hash::{Hash, Hasher};

/// records everything fed to it (an order-sensitive digest is enough to compare two feeds)
struct Rec {
    n: usize,
    acc: u64,
}
impl Hasher for Rec {
    fn finish(&self) -> u64 {
        self.acc ^ self.n as u64
    }
    fn write(&mut self, bytes: &[u8]) {
        let mut i = 0;
        while i < bytes.len() {
            self.acc = self.acc.wrapping_mul(1099511628211).wrapping_add(bytes[i] as u64 + 1);
            self.n += 1;
            i += 1;
        }
    }
}

/// byte-level oracle of the `$share/{name}/{filter}` split for ASCII text that is a valid filter
fn share_split(b: &[u8]) -> Option<(usize, usize)> {
    // returns (end of share name, start of filter) as byte indices
    if b.len() < 7 || !(b[0] == b'$' && b[1] == b's' && b[2] == b'h' && b[3] == b'a' && b[4] == b'r' && b[5] == b'e' && b[6] == b'/') {
        return None;
    }
    let mut j = 7;
    let mut found = 0;
    let mut k = 7;
    while k < b.len() {
        if b[k] == b'/' && found == 0 {
            j = k;
            found = 1;
        }
        k += 1;
    }
    if found == 1 { Some((j, j + 1)) } else { None }
}

#[inline(always)]
fn accessors<const P: usize, const K: usize, const L: usize, const CAN_SHARE: bool, const CAN_PLAIN: bool>(s: &mut Src, prefix: &[u8; P]) {
    let tail: [u8; K] = s.bytes();
    vassume!(ascii(&tail));
    let mut buf = [0u8; L];
    let mut i = 0;
    while i < P { buf[i] = prefix[i]; i += 1; }
    let mut j = 0;
    while j < K { buf[P + j] = tail[j]; j += 1; }
    let text = unsafe { String::from_utf8_unchecked(buf.to_vec()) };
    let mut saw_shared = false;
    let mut saw_plain = false;
    match mp::TopicFilter::try_from(text) {
        Ok(f) => {
            vassert!(eq_bytes(f.as_bytes(), &buf), "C17|filter.text|accepted filter does not read back as the original text");
            match share_split(&buf) {
                Some((e, st)) => {
                    vassert!(f.is_shared(), "C17|filter.is_shared|accepted $share filter is not reported as shared");
                    let g = f.shared_group_name();
                    let t = f.shared_filter();
                    vassert!(matches!(g, Some(x) if eq_bytes(x.as_bytes(), &buf[7..e])), "C17|filter.group_name|share name differs from the text between \"$share/\" and the next '/'");
                    vassert!(matches!(t, Some(x) if eq_bytes(x.as_bytes(), &buf[st..])), "C17|filter.shared_filter|shared filter differs from the text after the share name");
                    let inf = f.shared_info();
                    vassert!(matches!(inf, Some((a, b2)) if eq_bytes(a.as_bytes(), &buf[7..e]) && eq_bytes(b2.as_bytes(), &buf[st..])), "C17|filter.shared_info|shared_info differs from the unique split of the text");
                    saw_shared = true;
                }
                None => {
                    vassert!(!f.is_shared(), "C17|filter.not_shared|a non-shared filter is reported as shared");
                    vassert!(f.shared_group_name().is_none() && f.shared_filter().is_none() && f.shared_info().is_none(), "C17|filter.no_share_parts|a non-shared filter reports share parts");
                    saw_plain = true;
                }
            }
            done(f);
        }
        Err(e) => {
            vcover!(true, "rejected");
            done(e);
        }
    }
    vcover!(saw_shared || !CAN_SHARE, "accepted shared filter (where the prefix allows one)");
    vcover!(saw_plain || !CAN_PLAIN, "accepted non-shared filter (where the prefix allows one)");
}
pub fn acc_plain3(s: &mut Src) { accessors::<0, 3, 3, false, true>(s, b"") }
pub fn acc_share3(s: &mut Src) { accessors::<7, 3, 10, true, false>(s, b"$share/") }
pub fn acc_share4(s: &mut Src) { accessors::<7, 4, 11, true, false>(s, b"$share/") }
pub fn acc_share5(s: &mut Src) { accessors::<7, 5, 12, true, false>(s, b"$share/") }
pub fn acc_near3(s: &mut Src) { accessors::<7, 3, 10, false, true>(s, b"$shared") }
pub fn acc_near_noslash4(s: &mut Src) { accessors::<6, 4, 10, true, true>(s, b"$share") }
pub fn acc_near_noslash5(s: &mut Src) { accessors::<6, 5, 11, true, true>(s, b"$share") }
pub fn acc_near4(s: &mut Src) { accessors::<7, 4, 11, false, true>(s, b"$shared") }

/// Eq / Ord / Hash of two accepted filters depend on the text only (one shared, one not, same
/// length so that every ordering outcome is reachable)
pub fn compare(s: &mut Src) {
    let a: [u8; 3] = s.bytes();
    let b: [u8; 3] = s.bytes();
    vassume!(ascii(&a) && ascii(&b));
    let mut ta = [0u8; 10];
    let mut tb = [0u8; 10];
    let pre = b"$share/";
    let mut i = 0;
    while i < 7 { ta[i] = pre[i]; tb[i] = pre[i]; i += 1; }
    tb[5] = b'E'; // "$sharE/..": not a shared subscription
    let mut j = 0;
    while j < 3 { ta[7 + j] = a[j]; tb[7 + j] = b[j]; j += 1; }
    let fa = mp::TopicFilter::try_from(unsafe { String::from_utf8_unchecked(ta.to_vec()) });
    let fb = mp::TopicFilter::try_from(unsafe { String::from_utf8_unchecked(tb.to_vec()) });
    let fa2 = mp::TopicFilter::try_from(unsafe { String::from_utf8_unchecked(ta.to_vec()) });
    if let (Ok(x), Ok(y), Ok(x2)) = (&fa, &fb, &fa2) {
        let sx = unsafe { std::str::from_utf8_unchecked(&ta) };
        let sy = unsafe { std::str::from_utf8_unchecked(&tb) };
        vassert!((x == y) == (sx == sy), "C17|filter.eq|equality of filters differs from equality of their texts");
        vassert!(x.cmp(y) == sx.cmp(sy), "C17|filter.cmp|ordering of filters differs from ordering of their texts");
        vassert!(x.partial_cmp(y) == Some(sx.cmp(sy)), "C17|filter.partial_cmp|partial_cmp differs from ordering of the texts");
        vassert!(x == x2 && x.cmp(x2) == Ordering::Equal, "C17|filter.eq_same_text|two filters with the same text are not equal");
        let mut h1 = Rec { n: 0, acc: 7 };
        let mut h2 = Rec { n: 0, acc: 7 };
        x.hash(&mut h1);
        sx.hash(&mut h2);
        vassert!(h1.finish() == h2.finish() && h1.n == h2.n, "C17|filter.hash|hashing a filter feeds something other than its text");
        vcover!(x.is_shared() && !y.is_shared(), "one shared, one not");
    }
    done(fa); done(fb); done(fa2);
}

/// both filters shared: ordering must still be that of the whole text (a share name that is a
/// prefix of the other followed by a character below '/' orders differently part-wise)
pub fn compare_shared(s: &mut Src) {
    let a: [u8; 4] = s.bytes();
    let b: [u8; 4] = s.bytes();
    vassume!(ascii(&a) && ascii(&b));
    let mut ta = [0u8; 11];
    let mut tb = [0u8; 11];
    let pre = b"$share/";
    let mut i = 0;
    while i < 7 { ta[i] = pre[i]; tb[i] = pre[i]; i += 1; }
    let mut j = 0;
    while j < 4 { ta[7 + j] = a[j]; tb[7 + j] = b[j]; j += 1; }
    let fa = mp::TopicFilter::try_from(unsafe { String::from_utf8_unchecked(ta.to_vec()) });
    let fb = mp::TopicFilter::try_from(unsafe { String::from_utf8_unchecked(tb.to_vec()) });
    if let (Ok(x), Ok(y)) = (&fa, &fb) {
        let sx = unsafe { std::str::from_utf8_unchecked(&ta) };
        let sy = unsafe { std::str::from_utf8_unchecked(&tb) };
        vassert!((x == y) == (sx == sy), "C17|filter.eq_shared|equality of shared filters differs from equality of their texts");
        vassert!(x.cmp(y) == sx.cmp(sy), "C17|filter.cmp_shared|ordering of shared filters differs from ordering of their texts");
        vassert!(x.partial_cmp(y) == Some(sx.cmp(sy)), "C17|filter.partial_cmp_shared|partial_cmp of shared filters differs from ordering of the texts");
        vcover!(x.is_shared() && y.is_shared() && sx != sy, "two different shared filters");
    }
    done(fa); done(fb);
}

scenarios! {
    #[kani::unwind(14)] c17_acc_plain3 [3] => acc_plain3;
    #[kani::unwind(14)] c17_acc_share3 [3] => acc_share3;
    #[kani::unwind(15)] c17_acc_share4 [4] => acc_share4;
    #[kani::unwind(16)] c17_acc_share5 [5] => acc_share5;
    #[kani::unwind(14)] c17_acc_near3 [3] => acc_near3;
    #[kani::unwind(14)] c17_acc_near_noslash4 [4] => acc_near_noslash4;
    #[kani::unwind(15)] c17_acc_near_noslash5 [5] => acc_near_noslash5;
    #[kani::unwind(15)] c17_acc_near4 [4] => acc_near4;
    #[kani::unwind(14)] c17_compare [6] => compare;
    #[kani::unwind(15)] c17_compare_shared [8] => compare_shared;
}
