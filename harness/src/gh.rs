//! helpers used by the generated scenario modules (g_*.rs)
pub use crate::fe::{body_bytes, eq_bytes};
pub use crate::model::{plain_filter_bytes_ok, set_classes, topic_name_bytes_ok, utf8_model};
pub use crate::mp;
pub use crate::rt::{done, Src};
pub use bytes::Bytes;
pub use std::convert::TryFrom;
pub use std::sync::Arc;

pub fn is_in(x: u8, table: &[u8]) -> bool {
    let mut i = 0;
    while i < table.len() {
        if table[i] == x {
            return true;
        }
        i += 1;
    }
    false
}

pub fn ascii(b: &[u8]) -> bool {
    let mut i = 0;
    while i < b.len() {
        if b[i] >= 0x80 {
            return false;
        }
        i += 1;
    }
    true
}

/// MQTT 3.1.1 section 3.9.3: SUBACK return codes as wire numbers
pub fn v3_suback_code(c: mp::v3::SubscribeReturnCode) -> u8 {
    match c {
        mp::v3::SubscribeReturnCode::MaxLevel0 => 0x00,
        mp::v3::SubscribeReturnCode::MaxLevel1 => 0x01,
        mp::v3::SubscribeReturnCode::MaxLevel2 => 0x02,
        mp::v3::SubscribeReturnCode::Failure => 0x80,
    }
}

pub fn v3_suback_from(c: u8) -> mp::v3::SubscribeReturnCode {
    match c {
        0x00 => mp::v3::SubscribeReturnCode::MaxLevel0,
        0x01 => mp::v3::SubscribeReturnCode::MaxLevel1,
        0x02 => mp::v3::SubscribeReturnCode::MaxLevel2,
        _ => mp::v3::SubscribeReturnCode::Failure,
    }
}

/// fixed-capacity sink for `Encodable::encode`: records how many bytes were written and
/// whether the encoder tried to write past the capacity (instead of failing like `&mut [u8]`)
pub struct ArrSink<const N: usize> {
    pub buf: [u8; N],
    pub len: usize,
    pub overflow: bool,
}

impl<const N: usize> ArrSink<N> {
    pub fn new() -> Self {
        ArrSink { buf: [0u8; N], len: 0, overflow: false }
    }
}

impl<const N: usize> std::io::Write for ArrSink<N> {
    fn write(&mut self, data: &[u8]) -> std::io::Result<usize> {
        let mut i = 0;
        while i < data.len() {
            if self.len < N {
                self.buf[self.len] = data[i];
                self.len += 1;
            } else {
                self.overflow = true;
            }
            i += 1;
        }
        Ok(data.len())
    }
    fn flush(&mut self) -> std::io::Result<()> {
        Ok(())
    }
}

/// compact identity of an error value (variant + scalar payload): comparing two of these is what the
/// front-end agreement scenarios do instead of the derived `==` on the error enums (a derived `==`
/// over two symbolic-variant values explores every variant pair)
pub fn err_code3(e: &mp::Error) -> (u8, u32) {
    match e {
        mp::Error::InvalidRemainingLength => (1, 0),
        mp::Error::EmptySubscription => (2, 0),
        mp::Error::ZeroPid => (3, 0),
        mp::Error::InvalidQos(x) => (4, *x as u32),
        mp::Error::InvalidConnectFlags(x) => (5, *x as u32),
        mp::Error::InvalidConnackFlags(x) => (6, *x as u32),
        mp::Error::InvalidConnectReturnCode(x) => (7, *x as u32),
        mp::Error::InvalidProtocol(_, l) => (8, *l as u32),
        mp::Error::UnexpectedProtocol(p) => (9, *p as u32),
        mp::Error::InvalidHeader => (10, 0),
        mp::Error::InvalidVarByteInt => (11, 0),
        mp::Error::InvalidTopicName(_) => (12, 0),
        mp::Error::InvalidTopicFilter(_) => (13, 0),
        mp::Error::InvalidString => (14, 0),
        mp::Error::IoError(_, _) => (15, 0),
        #[allow(unreachable_patterns)]
        _ => (99, 0),
    }
}

pub fn err_code5(e: &mp::v5::ErrorV5) -> (u8, u32) {
    match e {
        mp::v5::ErrorV5::Common(c) => err_code3(c),
        mp::v5::ErrorV5::InvalidReasonCode(t, x) => (20, ((*t as u32) << 8) | *x as u32),
        mp::v5::ErrorV5::InvalidSubscriptionOption(x) => (21, *x as u32),
        mp::v5::ErrorV5::InvalidPayloadFormat => (22, 0),
        mp::v5::ErrorV5::InvalidResponseTopic => (23, 0),
        mp::v5::ErrorV5::InvalidPropertyId(x) => (24, *x as u32),
        mp::v5::ErrorV5::InvalidPropertyLength(x) => (25, *x),
        mp::v5::ErrorV5::InvalidByteProperty(p, x) => (26, ((*p as u32) << 8) | *x as u32),
        mp::v5::ErrorV5::DuplicatedProperty(p) => (27, *p as u32),
        mp::v5::ErrorV5::InvalidProperty(t, p) => (28, ((*t as u32) << 8) | *p as u32),
        mp::v5::ErrorV5::InvalidWillProperty(p) => (29, *p as u32),
        #[allow(unreachable_patterns)]
        _ => (98, 0),
    }
}
