//! C05 -- the real `common/poll.rs` (GenericPollPacket) against its specification, for a *generic*
//! header type: schedule independence, cancellation safety, no over-read, exact totals.
//!
//! `TH` is a harness-defined `PollHeader` whose behaviour is selected by the control byte, so that
//! every way a header implementation can answer (header rejected / empty packet / body decoded /
//! body decoded with bytes left over / eof error / other error) is exercised.  Because
//! `GenericPollPacket` is generic, what is decided here for `TH` is what `fe::strict` assumes for the
//! real `v3::Header` / `v5::Header` (same source, different instantiation).
use crate::fe::{noop_cx, SliceRd};
use crate::mp;
use crate::rt::{done, Src};
use std::future::Future;
use std::io;
use std::mem::MaybeUninit;
use std::pin::Pin;
use std::task::{Context, Poll};
use tokio::io::{AsyncRead, ReadBuf};

#[derive(Clone, Copy, Debug, PartialEq, Eq)]
pub struct TPkt {
    pub hd: u8,
    pub rem: u32,
    pub n: usize,
    pub first: u8,
    pub last: u8,
    pub sum: u8,
}

#[derive(Clone, Copy, Debug)]
pub struct TH {
    pub hd: u8,
    pub rem: u32,
}

/// behaviour classes by control byte (high nibble)
pub const M_REJECT: u8 = 0xF0; // new_with fails
pub const M_EMPTY: u8 = 0xC0; // build_empty_packet = Some
pub const M_ALL: u8 = 0x30; // block_decode consumes everything
pub const M_LEFTOVER: u8 = 0x40; // block_decode leaves the last byte
pub const M_EOF: u8 = 0x50; // block_decode reports eof
pub const M_OTHER: u8 = 0x60; // block_decode reports another error

impl mp::PollHeader for TH {
    type Error = mp::Error;
    type Packet = TPkt;
    fn new_with(hd: u8, remaining_len: u32) -> Result<Self, mp::Error> {
        if hd & 0xF0 == M_REJECT {
            Err(mp::Error::InvalidHeader)
        } else {
            Ok(TH { hd, rem: remaining_len })
        }
    }
    fn build_empty_packet(&self) -> Option<TPkt> {
        if self.hd & 0xF0 == M_EMPTY {
            Some(TPkt { hd: self.hd, rem: self.rem, n: 0, first: 0, last: 0, sum: 0 })
        } else {
            None
        }
    }
    fn block_decode(self, reader: &mut &[u8]) -> Result<TPkt, mp::Error> {
        let n = reader.len();
        let mut sum = 0u8;
        let mut i = 0;
        while i < n {
            sum = sum.wrapping_mul(31).wrapping_add(reader[i]);
            i += 1;
        }
        let p = TPkt { hd: self.hd, rem: self.rem, n, first: if n > 0 { reader[0] } else { 0 }, last: if n > 0 { reader[n - 1] } else { 0 }, sum };
        let m = self.hd & 0xF0;
        if m == M_EOF {
            return Err(mp::Error::IoError(io::ErrorKind::UnexpectedEof, String::new()));
        }
        if m == M_OTHER {
            return Err(mp::Error::ZeroPid);
        }
        if m == M_LEFTOVER && n > 0 {
            *reader = &reader[n - 1..];
        } else {
            *reader = &reader[n..];
        }
        Ok(p)
    }
    fn remaining_len(&self) -> usize {
        self.rem as usize
    }
    fn is_eof_error(err: &mp::Error) -> bool {
        err.is_eof()
    }
}

pub type St = mp::GenericPollPacketState<TH>;

/// what one uninterrupted read of `stream` must produce (the specification of the poll decoder)
#[derive(Debug, PartialEq, Eq, Clone, Copy)]
pub enum Spec {
    /// (total, packet)
    Done(usize, TPkt),
    Eof,
    BadVarInt,
    BadHeader,
    BadRemaining,
    Other,
}

pub fn spec(stream: &[u8]) -> (Spec, usize) {
    // returns (outcome, bytes consumed)
    let n = stream.len();
    if n == 0 {
        return (Spec::Eof, 0);
    }
    let hd = stream[0];
    let mut rem: u32 = 0;
    let mut k = 0; // length bytes consumed
    loop {
        if 1 + k >= n {
            return (Spec::Eof, n);
        }
        let b = stream[1 + k];
        rem |= ((b & 0x7f) as u32) << (7 * k);
        k += 1;
        if b & 0x80 == 0 {
            break;
        }
        if k == 4 {
            return (Spec::BadVarInt, 1 + k);
        }
    }
    let hl = 1 + k;
    if hd & 0xF0 == M_REJECT {
        return (Spec::BadHeader, hl);
    }
    if hd & 0xF0 == M_EMPTY {
        return (Spec::Done(hl, TPkt { hd, rem, n: 0, first: 0, last: 0, sum: 0 }), hl);
    }
    if rem == 0 {
        return (Spec::BadRemaining, hl);
    }
    let r = rem as usize;
    if n - hl < r {
        return (Spec::Eof, n);
    }
    let body = &stream[hl..hl + r];
    let mut sum = 0u8;
    let mut i = 0;
    while i < r {
        sum = sum.wrapping_mul(31).wrapping_add(body[i]);
        i += 1;
    }
    let p = TPkt { hd, rem, n: r, first: body[0], last: body[r - 1], sum };
    let m = hd & 0xF0;
    if m == M_EOF || m == M_LEFTOVER {
        return (Spec::BadRemaining, hl + r);
    }
    if m == M_OTHER {
        return (Spec::Other, hl + r);
    }
    (Spec::Done(hl + r, p), hl + r)
}

pub fn classify(r: Result<(usize, Vec<MaybeUninit<u8>>, TPkt), mp::Error>) -> Spec {
    match r {
        Ok((t, body, p)) => {
            done(body);
            Spec::Done(t, p)
        }
        Err(e) => {
            let s = if e.is_eof() {
                Spec::Eof
            } else {
                match &e {
                    mp::Error::InvalidVarByteInt => Spec::BadVarInt,
                    mp::Error::InvalidHeader => Spec::BadHeader,
                    mp::Error::InvalidRemainingLength => Spec::BadRemaining,
                    _ => Spec::Other,
                }
            };
            done(e);
            s
        }
    }
}

/// One scripted transport answer
#[derive(Clone, Copy, PartialEq, Eq)]
pub enum Act {
    Pend,
    /// ready with at most this many bytes (never more than offered / available)
    Rdy(usize),
    /// end of stream (ready, nothing filled)
    Eof,
    Fail(io::ErrorKind),
}

/// Transport double executing a *concrete* script (positions must stay concrete for symbolic
/// execution: a symbolic schedule makes every stream index, hence every header byte and the body
/// allocation size, symbolic).  After the script it answers Pending.
pub struct Script<'a> {
    pub data: &'a [u8],
    pub pos: usize,
    pub acts: &'a [Act],
    pub ai: usize,
    pub pending_returned: bool,
    pub max_end_requested: usize,
}

impl<'a> AsyncRead for Script<'a> {
    fn poll_read(mut self: Pin<&mut Self>, _cx: &mut Context<'_>, buf: &mut ReadBuf<'_>) -> Poll<io::Result<()>> {
        let me = &mut *self;
        let act = if me.ai < me.acts.len() { me.acts[me.ai] } else { Act::Pend };
        me.ai += 1;
        let cap = buf.remaining();
        if act != Act::Pend && me.pos + cap > me.max_end_requested {
            me.max_end_requested = me.pos + cap;
        }
        match act {
            Act::Pend => {
                me.pending_returned = true;
                Poll::Pending
            }
            Act::Eof => Poll::Ready(Ok(())),
            Act::Fail(k) => Poll::Ready(Err(io::Error::from(k))),
            Act::Rdy(want) => {
                let avail = me.data.len() - me.pos;
                let mut k = want;
                if cap < k {
                    k = cap;
                }
                if avail < k {
                    k = avail;
                }
                let dst = buf.initialize_unfilled_to(k);
                let mut i = 0;
                while i < k {
                    dst[i] = me.data[me.pos + i];
                    i += 1;
                }
                buf.advance(k);
                me.pos += k;
                Poll::Ready(Ok(()))
            }
        }
    }
}

/// The caller-held state after exactly `c` bytes of `stream` were consumed and no result was
/// produced yet -- the representation invariant of the decoder (hl = header length, known because
/// the header bytes are concrete).
pub fn state_for(stream: &[u8], hl: usize, rem: usize, c: usize) -> St {
    if c == 0 {
        return St::default();
    }
    if c < hl {
        let mut v: u32 = 0;
        let mut i = 0;
        while i + 1 < c {
            v |= ((stream[1 + i] & 0x7f) as u32) << (7 * i);
            i += 1;
        }
        return mp::GenericPollPacketState::Header(mp::PollHeaderState { control_byte: Some(stream[0]), var_idx: (c - 1) as u8, var_int: v });
    }
    let idx = c - hl;
    let mut buf: Vec<MaybeUninit<u8>> = Vec::with_capacity(rem);
    unsafe { buf.set_len(rem) };
    let mut i = 0;
    while i < idx {
        buf[i] = MaybeUninit::new(stream[hl + i]);
        i += 1;
    }
    mp::GenericPollPacketState::Body(mp::GenericPollBodyState { header: TH { hd: stream[0], rem: rem as u32 }, total: hl + rem, idx, buf })
}

pub fn same_state(a: &St, stream: &[u8], hl: usize, rem: usize, c: usize) -> bool {
    match a {
        mp::GenericPollPacketState::Header(h) => {
            if c >= hl {
                return false;
            }
            if c == 0 {
                return h.control_byte.is_none() && h.var_idx == 0 && h.var_int == 0;
            }
            let mut v: u32 = 0;
            let mut i = 0;
            while i + 1 < c {
                v |= ((stream[1 + i] & 0x7f) as u32) << (7 * i);
                i += 1;
            }
            h.control_byte == Some(stream[0]) && h.var_idx as usize == c - 1 && h.var_int == v
        }
        mp::GenericPollPacketState::Body(b) => {
            if c < hl {
                return false;
            }
            let idx = c - hl;
            if !(b.header.hd == stream[0] && b.header.rem as usize == rem && b.total == hl + rem && b.idx == idx && b.buf.len() == rem) {
                return false;
            }
            let mut ok = true;
            let mut i = 0;
            while i < idx {
                if unsafe { b.buf[i].assume_init() } != stream[hl + i] {
                    ok = false;
                }
                i += 1;
            }
            ok
        }
    }
}

/// One inductive step: from the invariant state at position `c`, a *fresh* future (= dropped and
/// re-created from the caller-held state), one poll against `acts`.
pub fn step(stream: &[u8], visible: usize, hl: usize, rem: usize, c: usize, acts: &[Act]) {
    let (want, used) = spec(&stream[..visible]);
    let mut st = state_for(stream, hl, rem, c);
    let mut rd = Script { data: &stream[..visible], pos: c, acts, ai: 0, pending_returned: false, max_end_requested: 0 };
    let r = {
        let mut fut = mp::GenericPollPacket::new(&mut st, &mut rd);
        let mut cx = noop_cx();
        Pin::new(&mut fut).poll(&mut cx)
    };
    let now = rd.pos;
    // the frame ends at hl + rem (or earlier when the header is refused): never ask beyond it
    let frame_end = hl + rem;
    vassert!(rd.max_end_requested <= frame_end || rd.max_end_requested <= used, "C05|poll.overread|asked the transport for bytes beyond the end of the current frame");
    // script-specific expectations
    let mut fail_kind: Option<io::ErrorKind> = None;
    let mut saw_eof = false;
    let mut i = 0;
    while i < acts.len() && i < rd.ai {
        match acts[i] {
            Act::Fail(k) => {
                if fail_kind.is_none() && !saw_eof {
                    fail_kind = Some(k);
                }
            }
            Act::Eof => {
                if fail_kind.is_none() {
                    saw_eof = true;
                }
            }
            _ => {}
        }
        i += 1;
    }
    match r {
        Poll::Pending => {
            vassert!(rd.pending_returned, "C05|poll.spurious_pending|the decoder returned Pending although the transport did not");
            if want == Spec::BadVarInt || want == Spec::BadRemaining || want == Spec::BadHeader {
                vassert!(now < used, "C05+C06+C15+C20|poll.malformed_header_pending|the poll decoder keeps reading past a malformed fixed header (over-long length, zero length on a packet with a body, refused control byte) instead of rejecting it");
            }
            vassert!(now < used || want == Spec::Eof, "C05+C08+C15|poll.pending_after_complete|Pending although the frame (or its remaining-length field) was complete");
            vassert!(same_state(&st, stream, hl, rem, now), "C05|poll.state_invariant|caller-held state after Pending is not the state of the bytes consumed so far");
            vcover!(now > c, "progress then Pending");
        }
        Poll::Ready(res) => {
            let got = classify(res);
            if let Some(k) = fail_kind {
                vassert!(got == Spec::Other || got == Spec::Eof, "C14|poll.read_error|a transport error did not surface as an I/O error");
                let _ = k;
            } else if saw_eof {
                vassert!(got == Spec::Eof, "C14|poll.eof|end of stream inside a frame is not reported as an eof error");
            } else {
                vassert!(!rd.pending_returned, "C05|poll.ready_after_pending|a result was produced in a poll in which the transport returned Pending");
                // one obligation, labelled with every property whose statement it is (a second assertion of the
                // same condition could never fail: Kani cuts the path after the first)
                if want == Spec::BadVarInt || want == Spec::BadRemaining || want == Spec::BadHeader {
                    vassert!(got == want, "C05+C06+C15+C20|poll.malformed_header|the poll decoder does not reject a malformed fixed header (over-long length, zero length on a packet with a body, refused control byte) with its documented error");
                }
                vassert!(got == want, "C05+C08+C15|poll.step.result|result differs from one uninterrupted read of the same stream (value and width of the remaining-length field, packet, error)");
                vassert!(now == used, "C05|poll.step.consumed|bytes consumed when the result is produced differ from one uninterrupted read");
                if let Spec::Done(t, _) = got {
                    vassert!(t == now, "C05|poll.total_vs_consumed|reported total size differs from the bytes consumed");
                    vassert!(t == now && rd.max_end_requested <= now, "C08|poll.framing|the poll decoder consumed or requested bytes of the following packet, or reports a size other than what it consumed");
                }
                vcover!(true, "result");
            }
        }
    }
    done(st);
}

/// all steps for one stream: every position before the result, each with the script family
#[inline(always)]
pub fn steps(stream: &[u8], hl: usize, rem: usize) {
    let n = stream.len();
    let (_, used) = spec(stream);
    let mut c = 0;
    while c < used && c < n {
        step(stream, n, hl, rem, c, &[Act::Pend]);
        step(stream, n, hl, rem, c, &[Act::Rdy(1), Act::Pend]);
        step(stream, n, hl, rem, c, &[Act::Rdy(usize::MAX), Act::Pend]);
        step(stream, n, hl, rem, c, &[Act::Rdy(1), Act::Rdy(1), Act::Pend]);
        step(stream, n, hl, rem, c, &[Act::Rdy(2), Act::Rdy(usize::MAX), Act::Rdy(usize::MAX)]);
        // end of stream / transport failure exactly here (the reader only sees the first c bytes)
        step(stream, c, hl, rem, c, &[Act::Rdy(usize::MAX), Act::Rdy(usize::MAX)]);
        step(stream, n, hl, rem, c, &[Act::Fail(io::ErrorKind::ConnectionReset)]);
        step(stream, n, hl, rem, c, &[Act::Rdy(1), Act::Fail(io::ErrorKind::TimedOut)]);
        c += 1;
    }
}

macro_rules! stream_scn {
    ($name:ident, $nb:expr, [$($hdr:expr),*], $rem:expr, $tail:expr) => {
        pub fn $name(s: &mut Src) {
            let b: [u8; $nb] = s.bytes();
            const HL: usize = 0 $(+ { let _ = $hdr; 1 })*;
            let hdr: [u8; HL] = [$($hdr),*];
            let mut stream = [0u8; HL + $nb + $tail];
            let mut i = 0;
            while i < HL { stream[i] = hdr[i]; i += 1; }
            let mut j = 0;
            while j < $nb { stream[HL + j] = b[j]; j += 1; }
            let mut t = 0;
            while t < $tail { stream[HL + $nb + t] = 0xA0 + t as u8; t += 1; }
            steps(&stream, HL, $rem);
        }
    };
}

// well-formed frames: minimal and non-minimal length spellings, bodies 1..4, one trailing byte of
// the next frame; every header-behaviour class
stream_scn!(all_rem1, 1, [M_ALL | 1, 1], 1, 1);
stream_scn!(all_rem2, 2, [M_ALL | 2, 2], 2, 1);
stream_scn!(all_rem3, 3, [M_ALL | 3, 3], 3, 1);
stream_scn!(all_rem4, 4, [M_ALL | 3, 4], 4, 1);
stream_scn!(all_rem2_hl3, 2, [M_ALL, 0x82, 0x00], 2, 1);
stream_scn!(all_rem2_hl4, 2, [M_ALL, 0x82, 0x80, 0x00], 2, 1);
stream_scn!(all_rem2_hl5, 2, [M_ALL, 0x82, 0x80, 0x80, 0x00], 2, 1);
stream_scn!(empty_hl2, 0, [M_EMPTY, 0], 0, 1);
stream_scn!(empty_hl3, 0, [M_EMPTY | 1, 0x80, 0x00], 0, 1);
stream_scn!(empty_hl5, 0, [M_EMPTY, 0x80, 0x80, 0x80, 0x00], 0, 1);
stream_scn!(leftover_rem3, 3, [M_LEFTOVER, 3], 3, 1);
stream_scn!(eoferr_rem2, 2, [M_EOF, 2], 2, 1);
stream_scn!(other_rem2, 2, [M_OTHER, 2], 2, 1);
stream_scn!(reject_hl2, 0, [M_REJECT, 5], 5, 1);
stream_scn!(zero_rem, 0, [M_ALL, 0], 0, 1);
stream_scn!(overlong_varint, 0, [M_ALL, 0x80, 0x80, 0x80, 0x80, 0x01], 0, 1);
stream_scn!(rem130_hl3_prefix, 2, [M_ALL, 0x82, 0x01], 130, 0);

/// C08 clean end: after the last packet every front-end reports end of input at a clean boundary
pub fn clean_end(s: &mut Src) {
    let _ = s.u8();
    let empty: [u8; 0] = [];
    let acts = [Act::Eof];
    let mut st = St::default();
    let mut rd = Script { data: &empty, pos: 0, acts: &acts, ai: 0, pending_returned: false, max_end_requested: 0 };
    let r = {
        let mut fut = mp::GenericPollPacket::new(&mut st, &mut rd);
        let mut cx = noop_cx();
        Pin::new(&mut fut).poll(&mut cx)
    };
    match r {
        Poll::Ready(res) => {
            vassert!(classify(res) == Spec::Eof, "C08|clean_end.poll|the poll decoder does not report eof on an exhausted stream");
        }
        Poll::Pending => {
            vassert!(false, "C08|clean_end.pending|Pending on an exhausted stream");
        }
    }
    let b3 = crate::fe::v3::blocking(&empty);
    let b5 = crate::fe::v5::blocking(&empty);
    vassert!(matches!(&b3, Ok(None)) && matches!(&b5, Ok(None)), "C08|clean_end.blocking|the blocking decoder does not report 'incomplete' on an empty remainder");
    let (a3, n3) = crate::fe::v3::async_all(&empty);
    let (a5, n5) = crate::fe::v5::async_all(&empty);
    vassert!(matches!(&a3, Err(e) if e.is_eof()) && matches!(&a5, Err(e) if e.is_eof()) && n3 == 0 && n5 == 0, "C08|clean_end.async|the async decoder does not report eof on an empty remainder");
    vcover!(true, "clean end");
    done(st); done(b3); done(b5); done(a3); done(a5);
}

/// probe: whole stream in one poll, concrete header bytes, symbolic body
pub fn one_shot_rem3(s: &mut Src) {
    let b: [u8; 3] = s.bytes();
    let stream = [M_ALL | 2, 3, b[0], b[1], b[2], 0xAA];
    let mut st = St::default();
    let mut rd = SliceRd::new(&stream);
    let r = {
        let mut fut = mp::GenericPollPacket::new(&mut st, &mut rd);
        let mut cx = noop_cx();
        Pin::new(&mut fut).poll(&mut cx)
    };
    match r {
        Poll::Ready(r) => {
            let got = classify(r);
            let (want, used) = spec(&stream);
            vassert!(got == want, "C05|poll.one_shot.result|one uninterrupted poll differs from the specification");
            vassert!(rd.pos == used, "C05|poll.one_shot.consumed|bytes consumed differ from the specification");
            vassert!(rd.max_end_requested <= 5, "C05|poll.overread|asked the transport for bytes beyond the frame");
            vcover!(true, "done");
        }
        Poll::Pending => {
            vassert!(false, "C05|poll.spurious_pending|Pending although the transport was ready");
        }
    }
    done(st);
}

scenarios! {
    #[kani::unwind(12)]
    #[kani::stub(<mqtt_proto_sync::Error as std::convert::From<std::io::Error>>::from, crate::model::from_io_kind_stub)]
    #[kani::stub(<std::io::Error as std::string::ToString>::to_string, crate::model::io_to_string_stub)]
    c05_one_shot_rem3 [3] => one_shot_rem3;
    #[kani::unwind(8)]
    #[kani::stub(<mqtt_proto_sync::Error as std::convert::From<std::io::Error>>::from, crate::model::from_io_kind_stub)]
    #[kani::stub(<std::io::Error as std::string::ToString>::to_string, crate::model::io_to_string_stub)]
    c08_clean_end [1] => clean_end;
    #[kani::unwind(12)]
    #[kani::stub(<mqtt_proto_sync::Error as std::convert::From<std::io::Error>>::from, crate::model::from_io_kind_stub)]
    #[kani::stub(<std::io::Error as std::string::ToString>::to_string, crate::model::io_to_string_stub)]
    c05_steps_all_rem1 [1] => all_rem1;
    #[kani::unwind(12)]
    #[kani::stub(<mqtt_proto_sync::Error as std::convert::From<std::io::Error>>::from, crate::model::from_io_kind_stub)]
    #[kani::stub(<std::io::Error as std::string::ToString>::to_string, crate::model::io_to_string_stub)]
    c05_steps_all_rem2 [2] => all_rem2;
    #[kani::unwind(12)]
    #[kani::stub(<mqtt_proto_sync::Error as std::convert::From<std::io::Error>>::from, crate::model::from_io_kind_stub)]
    #[kani::stub(<std::io::Error as std::string::ToString>::to_string, crate::model::io_to_string_stub)]
    c05_steps_all_rem3 [3] => all_rem3;
    #[kani::unwind(12)]
    #[kani::stub(<mqtt_proto_sync::Error as std::convert::From<std::io::Error>>::from, crate::model::from_io_kind_stub)]
    #[kani::stub(<std::io::Error as std::string::ToString>::to_string, crate::model::io_to_string_stub)]
    c05_steps_all_rem4 [4] => all_rem4;
    #[kani::unwind(12)]
    #[kani::stub(<mqtt_proto_sync::Error as std::convert::From<std::io::Error>>::from, crate::model::from_io_kind_stub)]
    #[kani::stub(<std::io::Error as std::string::ToString>::to_string, crate::model::io_to_string_stub)]
    c05_steps_all_rem2_hl3 [2] => all_rem2_hl3;
    #[kani::unwind(12)]
    #[kani::stub(<mqtt_proto_sync::Error as std::convert::From<std::io::Error>>::from, crate::model::from_io_kind_stub)]
    #[kani::stub(<std::io::Error as std::string::ToString>::to_string, crate::model::io_to_string_stub)]
    c05_steps_all_rem2_hl4 [2] => all_rem2_hl4;
    #[kani::unwind(12)]
    #[kani::stub(<mqtt_proto_sync::Error as std::convert::From<std::io::Error>>::from, crate::model::from_io_kind_stub)]
    #[kani::stub(<std::io::Error as std::string::ToString>::to_string, crate::model::io_to_string_stub)]
    c05_steps_all_rem2_hl5 [2] => all_rem2_hl5;
    #[kani::unwind(12)]
    #[kani::stub(<mqtt_proto_sync::Error as std::convert::From<std::io::Error>>::from, crate::model::from_io_kind_stub)]
    #[kani::stub(<std::io::Error as std::string::ToString>::to_string, crate::model::io_to_string_stub)]
    c05_steps_empty_hl2 [1] => empty_hl2;
    #[kani::unwind(12)]
    #[kani::stub(<mqtt_proto_sync::Error as std::convert::From<std::io::Error>>::from, crate::model::from_io_kind_stub)]
    #[kani::stub(<std::io::Error as std::string::ToString>::to_string, crate::model::io_to_string_stub)]
    c05_steps_empty_hl3 [1] => empty_hl3;
    #[kani::unwind(12)]
    #[kani::stub(<mqtt_proto_sync::Error as std::convert::From<std::io::Error>>::from, crate::model::from_io_kind_stub)]
    #[kani::stub(<std::io::Error as std::string::ToString>::to_string, crate::model::io_to_string_stub)]
    c05_steps_empty_hl5 [1] => empty_hl5;
    #[kani::unwind(12)]
    #[kani::stub(<mqtt_proto_sync::Error as std::convert::From<std::io::Error>>::from, crate::model::from_io_kind_stub)]
    #[kani::stub(<std::io::Error as std::string::ToString>::to_string, crate::model::io_to_string_stub)]
    c05_steps_leftover_rem3 [3] => leftover_rem3;
    #[kani::unwind(12)]
    #[kani::stub(<mqtt_proto_sync::Error as std::convert::From<std::io::Error>>::from, crate::model::from_io_kind_stub)]
    #[kani::stub(<std::io::Error as std::string::ToString>::to_string, crate::model::io_to_string_stub)]
    c05_steps_eoferr_rem2 [2] => eoferr_rem2;
    #[kani::unwind(12)]
    #[kani::stub(<mqtt_proto_sync::Error as std::convert::From<std::io::Error>>::from, crate::model::from_io_kind_stub)]
    #[kani::stub(<std::io::Error as std::string::ToString>::to_string, crate::model::io_to_string_stub)]
    c05_steps_other_rem2 [2] => other_rem2;
    #[kani::unwind(12)]
    #[kani::stub(<mqtt_proto_sync::Error as std::convert::From<std::io::Error>>::from, crate::model::from_io_kind_stub)]
    #[kani::stub(<std::io::Error as std::string::ToString>::to_string, crate::model::io_to_string_stub)]
    c05_steps_reject_hl2 [1] => reject_hl2;
    #[kani::unwind(12)]
    #[kani::stub(<mqtt_proto_sync::Error as std::convert::From<std::io::Error>>::from, crate::model::from_io_kind_stub)]
    #[kani::stub(<std::io::Error as std::string::ToString>::to_string, crate::model::io_to_string_stub)]
    c05_steps_zero_rem [1] => zero_rem;
    #[kani::unwind(12)]
    #[kani::stub(<mqtt_proto_sync::Error as std::convert::From<std::io::Error>>::from, crate::model::from_io_kind_stub)]
    #[kani::stub(<std::io::Error as std::string::ToString>::to_string, crate::model::io_to_string_stub)]
    c05_steps_overlong_varint [1] => overlong_varint;
    #[kani::unwind(12)]
    #[kani::stub(<mqtt_proto_sync::Error as std::convert::From<std::io::Error>>::from, crate::model::from_io_kind_stub)]
    #[kani::stub(<std::io::Error as std::string::ToString>::to_string, crate::model::io_to_string_stub)]
    c05_steps_rem130_hl3_prefix [2] => rem130_hl3_prefix;
}
