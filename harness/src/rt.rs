//! Runtime shared by the Kani build (symbolic) and the native replay build (concrete).
//!
//! A *scenario* is an ordinary function `fn(&mut Src)`.  All of its inputs are drawn,
//! in a fixed order, from one flat witness array: under Kani the array is
//! `kani::any()`, so every draw is a symbolic value and the solver decides the
//! scenario's `vassert!`s for all of them; in the native build the array holds the
//! concrete bytes the solver returned and the same scenario is re-executed against
//! the unmodified crate (`crate::mp` = `mqtt_proto`), in the dev and release profile.

use std::cell::RefCell;

pub struct Src<'a> {
    pub w: &'a [u8],
    pub pos: usize,
}

impl<'a> Src<'a> {
    pub fn new(w: &'a [u8]) -> Self {
        Src { w, pos: 0 }
    }
    #[inline]
    pub fn u8(&mut self) -> u8 {
        let v = if self.pos < self.w.len() { self.w[self.pos] } else { 0 };
        self.pos += 1;
        v
    }
    #[inline]
    pub fn bool(&mut self) -> bool {
        self.u8() & 1 == 1
    }
    #[inline]
    pub fn u16(&mut self) -> u16 {
        let a = self.u8() as u16;
        let b = self.u8() as u16;
        (a << 8) | b
    }
    #[inline]
    pub fn u32(&mut self) -> u32 {
        let a = self.u16() as u32;
        let b = self.u16() as u32;
        (a << 16) | b
    }
    #[inline]
    pub fn u64(&mut self) -> u64 {
        let a = self.u32() as u64;
        let b = self.u32() as u64;
        (a << 32) | b
    }
    #[inline]
    pub fn bytes<const N: usize>(&mut self) -> [u8; N] {
        let mut out = [0u8; N];
        let mut i = 0;
        while i < N {
            out[i] = self.u8();
            i += 1;
        }
        out
    }
    /// an arbitrary Unicode scalar value (3 witness bytes)
    #[inline]
    pub fn ch(&mut self) -> char {
        let v = ((self.u8() as u32 & 0x1f) << 16) | ((self.u8() as u32) << 8) | self.u8() as u32;
        let c = char::from_u32(v);
        vassume!(c.is_some());
        c.unwrap()
    }
}

#[derive(Debug)]
pub struct NotApplicable;

thread_local! {
    pub static FAILS: RefCell<Vec<String>> = RefCell::new(Vec::new());
    pub static COVERS: RefCell<Vec<String>> = RefCell::new(Vec::new());
}

pub fn not_applicable() -> ! {
    std::panic::panic_any(NotApplicable)
}

pub fn fail(msg: &str) {
    FAILS.with(|f| f.borrow_mut().push(msg.to_owned()));
}

pub fn covered(msg: &str) {
    COVERS.with(|f| f.borrow_mut().push(msg.to_owned()));
}

/// `forget` in both builds: drop glue of Arc/Bytes/io::Error is expensive under symex
#[inline]
pub fn done<T>(v: T) {
    std::mem::forget(v)
}
