//! C16 -- topic filter validation = MQTT 4.7 / 4.8, validator level:
//! real `TopicFilter::is_invalid` vs `spec::topic::filter` over every string of exactly N
//! arbitrary Unicode scalar values (one harness per N; every character class incl. NUL and
//! 2/3/4-byte scalars), plus concrete `$share/`-style prefixes followed by symbolic tails.
use crate::mp;
use crate::rt::Src;
use crate::spec::topic;

/// build `prefix ++ N symbolic scalars` in fixed buffers (no heap), return verdict pair
#[inline(always)]
fn check<const P: usize, const N: usize, const T: usize, const B: usize>(s: &mut Src, prefix: &[u8; P]) -> Option<usize> {
    // T = P + N chars, B = P + 4 * N bytes
    let mut cs = ['\0'; T];
    let mut buf = [0u8; B];
    let mut len = 0usize;
    let mut i = 0;
    while i < P {
        cs[i] = prefix[i] as char;
        buf[i] = prefix[i];
        i += 1;
    }
    len = P;
    let mut j = 0;
    while j < N {
        let c = s.ch();
        cs[P + j] = c;
        len += c.encode_utf8(&mut buf[len..]).len();
        j += 1;
    }
    let text = unsafe { std::str::from_utf8_unchecked(&buf[..len]) };
    let (inv, sep) = mp::TopicFilter::is_invalid(text);
    let o = topic::filter(&cs[..]);
    match o {
        None => {
            vassert!(inv, "C16|filter.accepts_invalid|is_invalid accepts a string that is not a topic filter");
            vassert!(!inv || sep == 0, "C16|filter.invalid_sep|invalid filter reported with a non-zero share separator");
        }
        Some(k) => {
            vassert!(!inv, "C16|filter.rejects_valid|is_invalid rejects a well-formed topic filter");
            vassert!(inv || sep as usize == k, "C16|filter.share_sep|share-name separator index differs from the specification split");
        }
    }
    o
}

macro_rules! cov {
    (rejected, $o:expr) => { vcover!($o.is_none(), "rejected"); };
    (accepted, $o:expr) => { vcover!($o == Some(0), "accepted, not shared"); };
    (shared, $o:expr) => { vcover!(matches!($o, Some(k) if k > 0), "accepted, shared"); };
}
macro_rules! scn {
    ($name:ident, $p:expr, $n:expr, $pre:expr, [$($c:ident),*]) => {
        pub fn $name(s: &mut Src) {
            let o = check::<{ $p }, { $n }, { $p + $n }, { $p + 4 * $n }>(s, $pre);
            $( cov!($c, o); )*
        }
    };
}

scn!(plain0, 0, 0, b"", [rejected]);
scn!(plain1, 0, 1, b"", [rejected, accepted]);
scn!(plain2, 0, 2, b"", [rejected, accepted]);
scn!(plain3, 0, 3, b"", [rejected, accepted]);
scn!(plain4, 0, 4, b"", [rejected, accepted]);
scn!(plain5, 0, 5, b"", [rejected, accepted]);
scn!(plain6, 0, 6, b"", [rejected, accepted]);

scn!(share1, 7, 1, b"$share/", [rejected]);
scn!(share2, 7, 2, b"$share/", [rejected]);
scn!(share3, 7, 3, b"$share/", [rejected, shared]);
scn!(share4, 7, 4, b"$share/", [rejected, shared]);
scn!(share5, 7, 5, b"$share/", [rejected, shared]);
scn!(share6, 7, 6, b"$share/", [rejected, shared]);
scn!(share7, 7, 7, b"$share/", [rejected, shared]);

// near-miss prefixes
scn!(near_share_noslash3, 6, 3, b"$share", [rejected, accepted]);
scn!(near_shar3, 6, 3, b"$shar/", [rejected, accepted]);
scn!(near_upper3, 7, 3, b"$Share/", [rejected, accepted]);
scn!(near_dslash3, 8, 3, b"$share//", [rejected]);
scn!(near_x3, 8, 3, b"x$share/", [rejected, accepted]);
scn!(near_sys3, 5, 3, b"$SYS/", [rejected, accepted]);
scn!(share_g_3, 9, 3, b"$share/g/", [rejected, shared]);
scn!(share_g_4, 9, 4, b"$share/g/", [rejected, shared]);
scn!(share_g_5, 9, 5, b"$share/g/", [rejected, shared]);

/// the 65,535-byte limit: 65,536 bytes of (never inspected) content must be rejected,
/// 65,535 'a's accepted -- concrete sizes, no symbolic content needed for the guard
pub fn length_limit(s: &mut Src) {
    static BIG: [u8; 65536] = [b'a'; 65536];
    let over = unsafe { std::str::from_utf8_unchecked(&BIG[..]) };
    let (inv, sep) = mp::TopicFilter::is_invalid(over);
    vassert!(inv && sep == 0, "C16|filter.length_limit|a 65536-byte filter is accepted");
    vassert!(mp::TopicName::is_invalid(over), "C18|name.length_limit|a 65536-byte topic name is accepted");
    vcover!(true, "reached");
}

/// the limit is in bytes of the UTF-8 encoding, not characters: 32,768 two-byte characters
/// (65,536 bytes, all constants) must be rejected.  The unwind bound is large because a guard that
/// *counted characters* would loop over the content; the guard as written never looks at it.
pub fn length_limit_multibyte(s: &mut Src) {
    static BIG2: [u8; 65536] = {
        let mut a = [0xC3u8; 65536];
        let mut i = 1;
        while i < 65536 {
            a[i] = 0xA9;
            i += 2;
        }
        a
    };
    let over = unsafe { std::str::from_utf8_unchecked(&BIG2[..]) };
    let (inv, _sep) = mp::TopicFilter::is_invalid(over);
    vassert!(inv, "C16|filter.length_limit_bytes|a filter of 65536 bytes in 32768 characters is accepted (limit counted in characters?)");
    vassert!(mp::TopicName::is_invalid(over), "C18|name.length_limit_bytes|a topic name of 65536 bytes in 32768 characters is accepted (limit counted in characters?)");
    vcover!(true, "reached");
    let _ = s;
}

scenarios! {
    #[kani::unwind(2)] c16_plain0 [1] => plain0;
    #[kani::unwind(3)] c16_plain1 [3] => plain1;
    #[kani::unwind(4)] c16_plain2 [6] => plain2;
    #[kani::unwind(5)] c16_plain3 [9] => plain3;
    #[kani::unwind(6)] c16_plain4 [12] => plain4;
    #[kani::unwind(7)] c16_plain5 [15] => plain5;
    #[kani::unwind(8)] c16_plain6 [18] => plain6;
    #[kani::unwind(10)] c16_share1 [3] => share1;
    #[kani::unwind(11)] c16_share2 [6] => share2;
    #[kani::unwind(12)] c16_share3 [9] => share3;
    #[kani::unwind(13)] c16_share4 [12] => share4;
    #[kani::unwind(14)] c16_share5 [15] => share5;
    #[kani::unwind(15)] c16_share6 [18] => share6;
    #[kani::unwind(16)] c16_share7 [21] => share7;
    #[kani::unwind(11)] c16_near_share_noslash3 [9] => near_share_noslash3;
    #[kani::unwind(11)] c16_near_shar3 [9] => near_shar3;
    #[kani::unwind(12)] c16_near_upper3 [9] => near_upper3;
    #[kani::unwind(13)] c16_near_dslash3 [9] => near_dslash3;
    #[kani::unwind(13)] c16_near_x3 [9] => near_x3;
    #[kani::unwind(10)] c16_near_sys3 [9] => near_sys3;
    #[kani::unwind(14)] c16_share_g_3 [9] => share_g_3;
    #[kani::unwind(15)] c16_share_g_4 [12] => share_g_4;
    #[kani::unwind(16)] c16_share_g_5 [15] => share_g_5;
    #[kani::unwind(2)] c16_length_limit [1] => length_limit;
    #[kani::unwind(70000)] c16_length_limit_multibyte [1] => length_limit_multibyte;
}
