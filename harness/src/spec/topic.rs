//! Topic names and topic filters: MQTT v3.1.1 section 4.7, v5.0 sections 4.7 and 4.8.2.
//! Level-based, over a slice of Unicode scalar values.

fn utf8_len(cs: &[char]) -> usize {
    let mut n = 0;
    let mut i = 0;
    while i < cs.len() {
        n += cs[i].len_utf8();
        i += 1;
    }
    n
}

/// [MQTT-4.7.1-1], [MQTT-4.7.3-1..3]: no wildcard characters, no U+0000, at most 65535 bytes.
/// (The empty name is accepted here: the library defers that check because of v5 topic aliases --
/// a pinned leniency, DESIGN.md section 3.5.)
pub fn name_ok(cs: &[char]) -> bool {
    let mut i = 0;
    while i < cs.len() {
        if cs[i] == '+' || cs[i] == '#' || cs[i] == '\0' {
            return false;
        }
        i += 1;
    }
    utf8_len(cs) <= 65535
}

/// Wildcard placement over levels cs[from..]: '#' only alone in the last level, '+' only alone in a level.
fn levels_ok(cs: &[char], from: usize) -> bool {
    let n = cs.len();
    let mut start = from; // start of current level
    let mut i = from;
    loop {
        if i == n || cs[i] == '/' {
            // level = cs[start..i]
            let len = i - start;
            let mut k = start;
            while k < i {
                if cs[k] == '#' {
                    if len != 1 || i != n {
                        return false;
                    }
                }
                if cs[k] == '+' {
                    if len != 1 {
                        return false;
                    }
                }
                k += 1;
            }
            if i == n {
                return true;
            }
            start = i + 1;
        }
        i += 1;
    }
}

const SHARE: [char; 7] = ['$', 's', 'h', 'a', 'r', 'e', '/'];

fn has_share_prefix(cs: &[char]) -> bool {
    if cs.len() < 7 {
        return false;
    }
    let mut i = 0;
    while i < 7 {
        if cs[i] != SHARE[i] {
            return false;
        }
        i += 1;
    }
    true
}

/// Result of the filter oracle: `None` = not a topic filter; `Some(0)` = ordinary filter;
/// `Some(k)` = shared subscription whose ShareName ends at *byte* index k (the '/' before the filter).
pub fn filter(cs: &[char]) -> Option<usize> {
    let n = cs.len();
    if n == 0 {
        return None; // [MQTT-4.7.3-1]
    }
    if utf8_len(cs) > 65535 {
        return None; // [MQTT-4.7.3-3]
    }
    let mut i = 0;
    while i < n {
        if cs[i] == '\0' {
            return None; // [MQTT-4.7.3-2]
        }
        i += 1;
    }
    if has_share_prefix(cs) {
        // $share/{ShareName}/{filter}  [MQTT-4.8.2-1], [MQTT-4.8.2-2]
        let mut j = 7;
        while j < n && cs[j] != '/' {
            if cs[j] == '+' || cs[j] == '#' {
                return None;
            }
            j += 1;
        }
        if j == 7 {
            return None; // empty ShareName
        }
        if j >= n {
            return None; // no '/' after the ShareName
        }
        if j + 1 >= n {
            return None; // empty filter
        }
        if !levels_ok(cs, j + 1) {
            return None;
        }
        Some(utf8_len(&cs[..j]))
    } else {
        if !levels_ok(cs, 0) {
            return None;
        }
        Some(0)
    }
}
