//! Variable Byte Integer (MQTT v5.0 section 1.5.5, v3.1.1 section 2.2.3)

pub const VARINT_MAX: u64 = 268_435_455;

/// number of bytes of the minimal encoding, None above the maximum
pub fn width(v: u64) -> Option<usize> {
    if v <= 127 {
        Some(1)
    } else if v <= 16_383 {
        Some(2)
    } else if v <= 2_097_151 {
        Some(3)
    } else if v <= VARINT_MAX {
        Some(4)
    } else {
        None
    }
}

/// byte i of the minimal encoding of v (i < width(v))
pub fn byte(v: u64, i: usize) -> u8 {
    let w = width(v).unwrap_or(4);
    let digit = ((v >> (7 * i)) & 0x7f) as u8;
    if i + 1 < w {
        digit | 0x80
    } else {
        digit
    }
}

/// reference reader: Some((value, bytes used)) / None = malformed (5th continuation) ;
/// Err(()) = input ended inside the integer
pub fn read(b: &[u8]) -> Result<Option<(u32, usize)>, ()> {
    let mut v: u32 = 0;
    let mut i = 0;
    while i < 4 {
        if i >= b.len() {
            return Err(());
        }
        v |= ((b[i] & 0x7f) as u32) << (7 * i);
        if b[i] & 0x80 == 0 {
            return Ok(Some((v, i + 1)));
        }
        i += 1;
    }
    Ok(None)
}
