//! Reference material written from the OASIS MQTT v3.1.1 / v5.0 texts.
//! Nothing here imports tables or predicates from mqtt-proto.
pub mod topic;
pub mod varint;
