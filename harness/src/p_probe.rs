//! cost probes (not part of any property)
use crate::gh::*;
use crate::fe;
use mp::PollHeader;

pub fn a_direct(s: &mut Src) {
    let a = s.u8(); let b = s.u8();
    let body = [a, b];
    let mut rd: &[u8] = &body;
    let r = dec!(mp::v3::Connack::decode_async(&mut rd));
    match r {
        Ok(p) => { vassert!(a <= 1 && b <= 5, "P|a|x"); vcover!(true, "acc"); done(p); }
        Err(e) => { vassert!(a > 1 || b > 5, "P|a|y"); vcover!(true, "rej"); done(e); }
    }
}
pub fn b_block_decode(s: &mut Src) {
    let a = s.u8(); let b = s.u8();
    let body = [a, b];
    let mut rd: &[u8] = &body;
    let h = mp::v3::Header::new_with(0x20, 2).unwrap();
    let r = h.block_decode(&mut rd);
    match r {
        Ok(p) => { vassert!(a <= 1 && b <= 5, "P|a|x"); vcover!(true, "acc"); done(p); }
        Err(e) => { vassert!(a > 1 || b > 5, "P|a|y"); vcover!(true, "rej"); done(e); }
    }
}
pub fn c_strict(s: &mut Src) {
    let a = s.u8(); let b = s.u8();
    let body = [a, b];
    let (r, used) = fe::v3::strict(0x20, 2, 2, &body);
    match r {
        Ok((t, p)) => { vassert!(a <= 1 && b <= 5, "P|a|x"); vcover!(true, "acc"); done(p); }
        Err(e) => { vassert!(a > 1 || b > 5, "P|a|y"); vcover!(true, "rej"); done(e); }
    }
}
pub fn d_blocking(s: &mut Src) {
    let a = s.u8(); let b = s.u8();
    let frame = [0x20, 2, a, b];
    let r = mp::v3::Packet::decode(&frame);
    match r {
        Ok(Some(p)) => { vassert!(a <= 1 && b <= 5, "P|a|x"); vcover!(true, "acc"); done(p); }
        Ok(None) => { vassert!(false, "P|a|z"); }
        Err(e) => { vassert!(a > 1 || b > 5, "P|a|y"); vcover!(true, "rej"); done(e); }
    }
}
pub fn e_protocol(s: &mut Src) {
    let a = s.u8();
    let body = [0u8, 4, b'M', b'Q', b'T', b'T', 4, a];
    let mut rd: &[u8] = &body;
    let r = dec!(mp::Protocol::decode_async(&mut rd));
    match r {
        Ok(p) => { vassert!(p == mp::Protocol::V311, "P|e|x"); vassert!(rd.len() == 1, "P|e|len"); vcover!(true, "acc"); }
        Err(e) => { vassert!(false, "P|e|y"); done(e); }
    }
}
pub fn f_connect_concrete_len(s: &mut Src) {
    let a = s.u8(); let fl = s.u8(); let ka = s.u16();
    let flags = fl & 0b0011_1011;
    let body = [0u8, 4, b'M', b'Q', b'T', b'T', 4, flags, (ka >> 8) as u8, (ka & 0xff) as u8, 0, 1, a];
    let mut rd: &[u8] = &body;
    set_classes(usize::MAX, usize::MAX, usize::MAX);
    let r = dec!(mp::v3::Connect::decode_async(&mut rd));
    match r {
        Ok(p) => { vassert!(p.keep_alive == ka, "P|f|x"); vcover!(true, "acc"); done(p); }
        Err(e) => { vcover!(true, "rej"); done(e); }
    }
}
pub fn g_connect_flags0(s: &mut Src) {
    let a = s.u8(); let ka = s.u16();
    let body = [0u8, 4, b'M', b'Q', b'T', b'T', 4, 0, (ka >> 8) as u8, (ka & 0xff) as u8, 0, 1, a];
    let mut rd: &[u8] = &body;
    set_classes(usize::MAX, usize::MAX, usize::MAX);
    let r = dec!(mp::v3::Connect::decode_async(&mut rd));
    match r {
        Ok(p) => { vassert!(p.keep_alive == ka, "P|f|x"); vcover!(true, "acc"); done(p); }
        Err(e) => { vcover!(true, "rej"); done(e); }
    }
}
pub fn h1_subprops(s: &mut Src) {
    let body = [2u8, 0x0B, 1];
    let mut rd: &[u8] = &body;
    set_classes(usize::MAX, usize::MAX, usize::MAX);
    let r = dec!(mp::v5::SubscribeProperties::decode_async(&mut rd, mp::v5::PacketType::Subscribe));
    match r {
        Ok(p) => { vassert!(p.subscription_id.map(|x| x.value()) == Some(1), "P|h1|x"); vassert!(rd.len() == 0, "P|h1|len"); vcover!(true, "acc"); done(p); }
        Err(e) => { vassert!(false, "P|h1|y"); done(e); }
    }
}
pub fn h2_pubackprops(s: &mut Src) {
    let c = s.u8();
    let body = [4u8, 0x1f, 0, 1, c];
    let mut rd: &[u8] = &body;
    set_classes(usize::MAX, usize::MAX, usize::MAX);
    let r = dec!(mp::v5::PubackProperties::decode_async(&mut rd, mp::v5::PacketType::Puback));
    match r {
        Ok(p) => { vassert!(rd.len() == 0, "P|h2|len"); vcover!(true, "acc"); done(p); }
        Err(e) => { vassert!(false, "P|h2|y"); done(e); }
    }
}
pub fn h3_userprop(s: &mut Src) {
    let a = s.u8(); let b = s.u8();
    let body = [7u8, 0x26, 0, 1, a, 0, 1, b];
    let mut rd: &[u8] = &body;
    set_classes(usize::MAX, usize::MAX, usize::MAX);
    let r = dec!(mp::v5::PubackProperties::decode_async(&mut rd, mp::v5::PacketType::Puback));
    match r {
        Ok(p) => { vassert!(rd.len() == 0, "P|h3|len"); vcover!(true, "acc"); done(p); }
        Err(e) => { vassert!(false, "P|h3|y"); done(e); }
    }
}
pub fn h4_subscribe(s: &mut Src) {
    let a = s.u8(); let o = s.u8();
    let body = [0u8, 1, 2, 0x0B, 1, 0, 1, a, o];
    let mut rd: &[u8] = &body;
    set_classes(usize::MAX, usize::MAX, usize::MAX);
    let h = mp::v5::Header::new(mp::v5::PacketType::Subscribe, false, mp::QoS::Level0, false, 9);
    let r = dec!(mp::v5::Subscribe::decode_async(&mut rd, h));
    match r {
        Ok(p) => { vassert!(rd.len() == 0, "P|h4|len"); vcover!(true, "acc"); done(p); }
        Err(e) => { vcover!(true, "rej"); done(e); }
    }
}
pub fn k1_expect(s: &mut Src) {
    let mut len = 0usize;
    let id = Some(mp::v5::VarByteInt::try_from(1u32).unwrap());
    if let Some(v) = id {
        len += 1 + mp::var_int_len(v.value() as usize).expect("x");
    }
    let mut k = 0;
    while 2 > len { k += 1; len += 1; }
    vassert!(k == 0, "P|k1|x");
    vcover!(true, "acc");
}
pub fn k2_rawheader(s: &mut Src) {
    let body = [0x0Bu8, 1, 7];
    let mut rd: &[u8] = &body;
    let r = dec!(mp::decode_raw_header(&mut rd));
    match r {
        Ok((t, v)) => {
            let mut len = 0usize; let mut k = 0;
            len += 1 + mp::var_int_len(v as usize).expect("x");
            while 2 > len { k += 1; len += 1; }
            vassert!(k == 0 && v == 1 && rd.len() == 1, "P|k2|x"); vcover!(true, "acc");
        }
        Err(e) => { vassert!(false, "P|k2|y"); done(e); }
    }
}
pub fn k3_varbyteint(s: &mut Src) {
    let body = [0x0Bu8, 1, 7];
    let mut rd: &[u8] = &body;
    let r = dec!(mp::decode_raw_header(&mut rd));
    match r {
        Ok((t, v)) => {
            let id = mp::v5::VarByteInt::try_from(v);
            match id {
                Ok(x) => {
                    let sid = Some(x);
                    let mut len = 0usize; let mut k = 0;
                    if let Some(value) = sid { len += 1 + mp::var_int_len(value.value() as usize).expect("x"); }
                    while 2 > len { k += 1; len += 1; }
                    vassert!(k == 0, "P|k3|x"); vcover!(true, "acc");
                }
                Err(e) => { done(e); }
            }
        }
        Err(e) => { vassert!(false, "P|k2|y"); done(e); }
    }
}
pub fn h5_connprops(s: &mut Src) {
    let body = [3u8, 0x21, 0, 5];
    let mut rd: &[u8] = &body;
    let r = dec!(mp::v5::ConnectProperties::decode_async(&mut rd, mp::v5::PacketType::Connect));
    match r {
        Ok(p) => { vassert!(p.receive_max == Some(5), "P|h5|x"); vassert!(rd.len() == 0, "P|h5|len"); vcover!(true, "acc"); done(p); }
        Err(e) => { vassert!(false, "P|h5|y"); done(e); }
    }
}
pub fn h6_subprops_empty(s: &mut Src) {
    let body = [0u8, 7];
    let mut rd: &[u8] = &body;
    let r = dec!(mp::v5::SubscribeProperties::decode_async(&mut rd, mp::v5::PacketType::Subscribe));
    match r {
        Ok(p) => { vassert!(rd.len() == 1, "P|h6|len"); vcover!(true, "acc"); done(p); }
        Err(e) => { vassert!(false, "P|h6|y"); done(e); }
    }
}
pub fn m1_readback(s: &mut Src) {
    let mut p = mp::v5::SubscribeProperties::default();
    p.subscription_id = Some(mp::v5::VarByteInt::try_from(1u32).unwrap());
    let mut len = 0usize;
    if let Some(v) = p.subscription_id { len += 1 + v.value() as usize; }
    let mut k = 0;
    while 2 > len { k += 1; len += 1; }
    vassert!(k == 0, "P|m1|x");
    vcover!(true, "acc");
    done(p);
}
pub fn m2_readback_fn(s: &mut Src) {
    let mut p = mp::v5::SubscribeProperties::default();
    p.subscription_id = Some(mp::v5::VarByteInt::try_from(1u32).unwrap());
    let len = mp::Encodable::encode_len(&p);
    let mut k = 0; let mut l = len;
    while 3 > l { k += 1; l += 1; }
    vassert!(k == 0, "P|m2|x");
    vcover!(true, "acc");
    done(p);
}
pub fn h7_short(s: &mut Src) {
    let body = [5u8, 0x21, 0, 5];
    let mut rd: &[u8] = &body;
    let r = dec!(mp::v5::ConnectProperties::decode_async(&mut rd, mp::v5::PacketType::Connect));
    match r {
        Ok(p) => { vassert!(false, "P|h7|x"); done(p); }
        Err(e) => { vassert!(e.is_eof(), "P|h7|y"); vcover!(true, "eof"); done(e); }
    }
}
pub fn h8_short_str(s: &mut Src) {
    let c = s.u8();
    let body = [9u8, 0x1f, 0, 1, c];
    let mut rd: &[u8] = &body;
    set_classes(usize::MAX, usize::MAX, usize::MAX);
    let r = dec!(mp::v5::PubackProperties::decode_async(&mut rd, mp::v5::PacketType::Puback));
    match r {
        Ok(p) => { vassert!(false, "P|h8|x"); done(p); }
        Err(e) => { vassert!(e.is_eof(), "P|h8|y"); vcover!(true, "eof"); done(e); }
    }
}
pub fn n1_pubprops_bad(s: &mut Src) {
    let body = [5u8, 0x11, 0, 0, 0, 1];
    let mut rd: &[u8] = &body;
    let r = dec!(mp::v5::PublishProperties::decode_async(&mut rd, mp::v5::PacketType::Publish));
    match r {
        Ok(p) => { vassert!(false, "P|n1|x"); done(p); }
        Err(e) => { vcover!(true, "rej"); done(e); }
    }
}
pub fn n2_connackprops_bad(s: &mut Src) {
    let body = [3u8, 0x23, 0, 1];
    let mut rd: &[u8] = &body;
    let r = dec!(mp::v5::ConnackProperties::decode_async(&mut rd, mp::v5::PacketType::Connack));
    match r {
        Ok(p) => { vassert!(false, "P|n2|x"); done(p); }
        Err(e) => { vcover!(true, "rej"); done(e); }
    }
}
pub fn n3_pubprops_default_drop(s: &mut Src) {
    let p = mp::v5::PublishProperties::default();
    drop(p);
    vcover!(true, "ok");
}
pub fn q1_suback_body(s: &mut Src) {
    let pid = s.u16(); let rc = s.u8();
    vassume!(pid != 0 && (rc <= 2 || rc == 0x80));
    let body = mp::v3::Suback { pid: mp::Pid::try_from(pid).unwrap(), topics: vec![v3_suback_from(rc)] };
    let mut sink = ArrSink::<7>::new();
    let r = mp::Encodable::encode(&body, &mut sink);
    vassert!(sink.len == 3, "P|q1|len");
    vassert!(mp::Encodable::encode_len(&body) == 3, "P|q1|elen");
    vcover!(true, "ok");
    done(r); done(body);
}
pub fn q2_suback_packet(s: &mut Src) {
    let pid = s.u16(); let rc = s.u8();
    vassume!(pid != 0 && (rc <= 2 || rc == 0x80));
    let pkt = mp::v3::Packet::Suback(mp::v3::Suback { pid: mp::Pid::try_from(pid).unwrap(), topics: vec![v3_suback_from(rc)] });
    match pkt.encode() {
        Ok(vb) => { let b: &[u8] = vb.as_ref(); vassert!(b.len() == 5, "P|q2|len"); vcover!(true, "ok"); done(vb); }
        Err(e) => { done(e); }
    }
    done(pkt);
}
pub fn q3_suback_packet_len(s: &mut Src) {
    let pid = s.u16(); let rc = s.u8();
    vassume!(pid != 0 && (rc <= 2 || rc == 0x80));
    let pkt = mp::v3::Packet::Suback(mp::v3::Suback { pid: mp::Pid::try_from(pid).unwrap(), topics: vec![v3_suback_from(rc)] });
    match pkt.encode_len() {
        Ok(n) => { vassert!(n == 5, "P|q3|len"); vcover!(true, "ok"); }
        Err(e) => { done(e); }
    }
    done(pkt);
}
pub fn r1_poll_all_connack(s: &mut Src) {
    let a = s.u8(); let b = s.u8();
    let frame = [0x20u8, 2, a, b];
    let (r, used, maxreq) = fe::v3::poll_all(&frame);
    match r {
        Ok((t, body, p)) => { vassert!(a <= 1 && b <= 5 && t == 4 && used == 4, "P|r1|x"); vcover!(true, "acc"); done(p); done(body); }
        Err(e) => { vassert!(a > 1 || b > 5, "P|r1|y"); vcover!(true, "rej"); done(e); }
    }
}
pub fn r2_poll_all_publish(s: &mut Src) {
    let a = s.u8(); let b = s.u8(); let pid = s.u16();
    let frame = [0x32u8, 6, 0, 1, a, (pid >> 8) as u8, (pid & 0xff) as u8, b];
    set_classes(usize::MAX, usize::MAX, usize::MAX);
    let (r, used, maxreq) = fe::v3::poll_all(&frame);
    match r {
        Ok((t, body, p)) => { vassert!(pid != 0 && t == 8 && used == 8, "P|r2|x"); vcover!(true, "acc"); done(p); done(body); }
        Err(e) => { vassert!(pid == 0, "P|r2|y"); vcover!(true, "rej"); done(e); }
    }
}
pub fn n4_pubprops_bad_after_alloc(s: &mut Src) {
    let t = s.u8();
    let v = vec![t];
    let st = unsafe { String::from_utf8_unchecked(v) };
    let body = [5u8, 0x11, 0, 0, 0, 1];
    let mut rd: &[u8] = &body;
    let r = dec!(mp::v5::PublishProperties::decode_async(&mut rd, mp::v5::PacketType::Publish));
    match r {
        Ok(p) => { vassert!(false, "P|n4|x"); done(p); }
        Err(e) => { vcover!(true, "rej"); done(e); }
    }
    done(st);
}
pub fn n5_publish_bad_prop(s: &mut Src) {
    let t = s.u8();
    let body = [0u8, 1, t, 5, 0x11, 0, 0, 0, 1, 7];
    let mut rd: &[u8] = &body;
    set_classes(usize::MAX, usize::MAX, usize::MAX);
    let h = mp::v5::Header::new(mp::v5::PacketType::Publish, false, mp::QoS::Level0, false, 10);
    let r = dec!(mp::v5::Publish::decode_async(&mut rd, h));
    match r {
        Ok(p) => { vassert!(false, "P|n5|x"); done(p); }
        Err(e) => { vcover!(true, "rej"); done(e); }
    }
}
pub fn t1_v5_any2(s: &mut Src) {
    let b: [u8; 2] = s.bytes();
    let r5 = fe::v5::blocking(&b);
    vcover!(matches!(&r5, Ok(None)), "incomplete");
    vcover!(matches!(&r5, Err(_)), "error");
    vcover!(matches!(&r5, Ok(Some(_))), "packet");
    done(r5);
}
scenarios! {
    #[kani::unwind(8)]
    #[kani::stub(<mqtt_proto_sync::Error as std::convert::From<std::io::Error>>::from, crate::model::from_io_eof_stub)]
    #[kani::stub(simdutf8::basic::from_utf8, crate::model::from_utf8_class_stub)]
    #[kani::stub(<std::io::Error as std::string::ToString>::to_string, crate::model::io_to_string_stub)]
    probe_t1_v5_any2 [2] => t1_v5_any2;
    #[kani::unwind(8)]
    #[kani::stub(<mqtt_proto_sync::Error as std::convert::From<std::io::Error>>::from, crate::model::from_io_eof_stub)]
    probe_n4_pubprops_bad_after_alloc [1] => n4_pubprops_bad_after_alloc;
    #[kani::unwind(8)]
    #[kani::stub(<mqtt_proto_sync::Error as std::convert::From<std::io::Error>>::from, crate::model::from_io_eof_stub)]
    #[kani::stub(simdutf8::basic::from_utf8, crate::model::from_utf8_class_stub)]
    #[kani::stub(mqtt_proto_sync::TopicName::is_invalid, crate::model::topic_name_class_stub)]
    probe_n5_publish_bad_prop [1] => n5_publish_bad_prop;
    #[kani::unwind(8)]
    #[kani::stub(<mqtt_proto_sync::Error as std::convert::From<std::io::Error>>::from, crate::model::from_io_eof_stub)]
    probe_n5b_publish_bad_prop_nostub [1] => n5_publish_bad_prop;
    #[kani::unwind(8)]
    #[kani::stub(<mqtt_proto_sync::Error as std::convert::From<std::io::Error>>::from, crate::model::from_io_eof_stub)]
    #[kani::stub(simdutf8::basic::from_utf8, crate::model::from_utf8_class_stub)]
    probe_n5c_only_utf8_stub [1] => n5_publish_bad_prop;
    #[kani::unwind(8)]
    #[kani::stub(<mqtt_proto_sync::Error as std::convert::From<std::io::Error>>::from, crate::model::from_io_eof_stub)]
    #[kani::stub(mqtt_proto_sync::TopicName::is_invalid, crate::model::topic_name_class_stub)]
    probe_n5d_only_name_stub [1] => n5_publish_bad_prop;
    #[kani::unwind(8)]
    #[kani::stub(<mqtt_proto_sync::Error as std::convert::From<std::io::Error>>::from, crate::model::from_io_eof_stub)]
    #[kani::stub(simdutf8::basic::from_utf8, crate::model::from_utf8_model_stub)]
    probe_n5e_utf8_model_stub [1] => n5_publish_bad_prop;
    #[kani::unwind(8)]
    #[kani::stub(<mqtt_proto_sync::Error as std::convert::From<std::io::Error>>::from, crate::model::from_io_eof_stub)]
    #[kani::stub(simdutf8::basic::from_utf8, crate::model::from_utf8_assume_valid)]
    probe_n5f_assume_valid_nocounter [1] => n5_publish_bad_prop;

    #[kani::unwind(8)]
    #[kani::stub(<mqtt_proto_sync::Error as std::convert::From<std::io::Error>>::from, crate::model::from_io_eof_stub)]
    probe_r1_poll_all_connack [2] => r1_poll_all_connack;
    #[kani::unwind(8)]
    #[kani::stub(<mqtt_proto_sync::Error as std::convert::From<std::io::Error>>::from, crate::model::from_io_eof_stub)]
    #[kani::stub(simdutf8::basic::from_utf8, crate::model::from_utf8_class_stub)]
    #[kani::stub(mqtt_proto_sync::TopicName::is_invalid, crate::model::topic_name_class_stub)]
    probe_r2_poll_all_publish [4] => r2_poll_all_publish;
    #[kani::unwind(8)]
    probe_q1_suback_body [3] => q1_suback_body;
    #[kani::unwind(8)]
    probe_q2_suback_packet [3] => q2_suback_packet;
    #[kani::unwind(8)]
    probe_q3_suback_packet_len [3] => q3_suback_packet_len;
    #[kani::unwind(8)]
    #[kani::stub(<mqtt_proto_sync::Error as std::convert::From<std::io::Error>>::from, crate::model::from_io_eof_stub)]
    probe_n1_pubprops_bad [1] => n1_pubprops_bad;
    #[kani::unwind(8)]
    #[kani::stub(<mqtt_proto_sync::Error as std::convert::From<std::io::Error>>::from, crate::model::from_io_eof_stub)]
    probe_n2_connackprops_bad [1] => n2_connackprops_bad;
    #[kani::unwind(8)]
    probe_n3_pubprops_default_drop [1] => n3_pubprops_default_drop;
    #[kani::unwind(8)]
    #[kani::stub(<mqtt_proto_sync::Error as std::convert::From<std::io::Error>>::from, crate::model::from_io_eof_stub)]
    #[kani::stub(simdutf8::basic::from_utf8, crate::model::from_utf8_class_stub)]
    probe_h7_short [1] => h7_short;
    #[kani::unwind(8)]
    #[kani::stub(<mqtt_proto_sync::Error as std::convert::From<std::io::Error>>::from, crate::model::from_io_eof_stub)]
    #[kani::stub(simdutf8::basic::from_utf8, crate::model::from_utf8_class_stub)]
    probe_h8_short_str [1] => h8_short_str;
    #[kani::unwind(8)]
    probe_m1_readback [1] => m1_readback;
    #[kani::unwind(8)]
    probe_m2_readback_fn [1] => m2_readback_fn;
    #[kani::unwind(8)]
    #[kani::stub(<mqtt_proto_sync::Error as std::convert::From<std::io::Error>>::from, crate::model::from_io_eof_stub)]
    probe_h1a_subprops_nostub [1] => h1_subprops;
    #[kani::unwind(8)]
    #[kani::stub(<mqtt_proto_sync::Error as std::convert::From<std::io::Error>>::from, crate::model::from_io_eof_stub)]
    #[kani::stub(simdutf8::basic::from_utf8, crate::model::from_utf8_class_stub)]
    probe_h5_connprops [1] => h5_connprops;
    #[kani::unwind(8)]
    #[kani::stub(<mqtt_proto_sync::Error as std::convert::From<std::io::Error>>::from, crate::model::from_io_eof_stub)]
    #[kani::stub(simdutf8::basic::from_utf8, crate::model::from_utf8_class_stub)]
    probe_h6_subprops_empty [1] => h6_subprops_empty;
    #[kani::unwind(8)]
    probe_k1_expect [1] => k1_expect;
    #[kani::unwind(8)]
    #[kani::stub(<mqtt_proto_sync::Error as std::convert::From<std::io::Error>>::from, crate::model::from_io_eof_stub)]
    probe_k2_rawheader [1] => k2_rawheader;
    #[kani::unwind(8)]
    #[kani::stub(<mqtt_proto_sync::Error as std::convert::From<std::io::Error>>::from, crate::model::from_io_eof_stub)]
    probe_k3_varbyteint [1] => k3_varbyteint;
    #[kani::unwind(8)]
    #[kani::stub(<mqtt_proto_sync::Error as std::convert::From<std::io::Error>>::from, crate::model::from_io_eof_stub)]
    #[kani::stub(simdutf8::basic::from_utf8, crate::model::from_utf8_class_stub)]
    probe_h1_subprops [1] => h1_subprops;
    #[kani::unwind(8)]
    #[kani::stub(<mqtt_proto_sync::Error as std::convert::From<std::io::Error>>::from, crate::model::from_io_eof_stub)]
    #[kani::stub(simdutf8::basic::from_utf8, crate::model::from_utf8_class_stub)]
    probe_h2_pubackprops [1] => h2_pubackprops;
    #[kani::unwind(8)]
    #[kani::stub(<mqtt_proto_sync::Error as std::convert::From<std::io::Error>>::from, crate::model::from_io_eof_stub)]
    #[kani::stub(simdutf8::basic::from_utf8, crate::model::from_utf8_class_stub)]
    probe_h3_userprop [2] => h3_userprop;
    #[kani::unwind(8)]
    #[kani::stub(<mqtt_proto_sync::Error as std::convert::From<std::io::Error>>::from, crate::model::from_io_eof_stub)]
    #[kani::stub(simdutf8::basic::from_utf8, crate::model::from_utf8_class_stub)]
    #[kani::stub(mqtt_proto_sync::TopicFilter::is_invalid, crate::model::topic_filter_class_stub)]
    probe_h4_subscribe [2] => h4_subscribe;
    #[kani::unwind(8)]
    #[kani::stub(<mqtt_proto_sync::Error as std::convert::From<std::io::Error>>::from, crate::model::from_io_eof_stub)]
    #[kani::stub(simdutf8::basic::from_utf8, crate::model::from_utf8_class_stub)]
    probe_e_protocol [2] => e_protocol;
    #[kani::unwind(8)]
    #[kani::stub(<mqtt_proto_sync::Error as std::convert::From<std::io::Error>>::from, crate::model::from_io_eof_stub)]
    #[kani::stub(simdutf8::basic::from_utf8, crate::model::from_utf8_class_stub)]
    probe_f_connect_concrete_len [5] => f_connect_concrete_len;
    #[kani::unwind(8)]
    #[kani::stub(<mqtt_proto_sync::Error as std::convert::From<std::io::Error>>::from, crate::model::from_io_eof_stub)]
    #[kani::stub(simdutf8::basic::from_utf8, crate::model::from_utf8_class_stub)]
    probe_g_connect_flags0 [5] => g_connect_flags0;
    #[kani::unwind(6)]
    #[kani::stub(<mqtt_proto_sync::Error as std::convert::From<std::io::Error>>::from, crate::model::from_io_eof_stub)]
    probe_a_direct [2] => a_direct;
    #[kani::unwind(6)]
    #[kani::stub(<mqtt_proto_sync::Error as std::convert::From<std::io::Error>>::from, crate::model::from_io_eof_stub)]
    probe_b_block_decode [2] => b_block_decode;
    #[kani::unwind(6)]
    #[kani::stub(<mqtt_proto_sync::Error as std::convert::From<std::io::Error>>::from, crate::model::from_io_eof_stub)]
    probe_c_strict [2] => c_strict;
    #[kani::unwind(6)]
    #[kani::stub(<mqtt_proto_sync::Error as std::convert::From<std::io::Error>>::from, crate::model::from_io_eof_stub)]
    probe_d_blocking [2] => d_blocking;
}
