//! C09 -- all encoder entry points emit the same bytes: the async encoder (real `encode_async`
//! coroutine + tokio `write_all`) under scripted partial writes / Pending, repeated invocation,
//! the VarBytes container.  (Packet-level = fixed header ++ streaming body encoder: C10's
//! packet-level scenarios assert exactly that equality against the spec image.)
use crate::fe::noop_cx;
use crate::gh::*;
use std::future::Future;
use std::io;
use std::pin::Pin;
use std::task::{Context, Poll};
use tokio::io::AsyncWrite;

#[derive(Clone, Copy, PartialEq, Eq)]
pub enum W {
    Pend,
    Take(usize),
    Zero,
    Fail(io::ErrorKind),
}

pub struct SinkW<'a> {
    pub buf: [u8; 24],
    pub len: usize,
    pub acts: &'a [W],
    pub ai: usize,
}

impl<'a> AsyncWrite for SinkW<'a> {
    fn poll_write(mut self: Pin<&mut Self>, _cx: &mut Context<'_>, data: &[u8]) -> Poll<io::Result<usize>> {
        let me = &mut *self;
        let act = if me.ai < me.acts.len() { me.acts[me.ai] } else { W::Take(usize::MAX) };
        me.ai += 1;
        match act {
            W::Pend => Poll::Pending,
            W::Zero => Poll::Ready(Ok(0)),
            W::Fail(k) => Poll::Ready(Err(io::Error::from(k))),
            W::Take(k) => {
                let n = if k < data.len() { k } else { data.len() };
                let mut i = 0;
                while i < n {
                    if me.len < 24 {
                        me.buf[me.len] = data[i];
                    }
                    me.len += 1;
                    i += 1;
                }
                Poll::Ready(Ok(n))
            }
        }
    }
    fn poll_flush(self: Pin<&mut Self>, _cx: &mut Context<'_>) -> Poll<io::Result<()>> {
        Poll::Ready(Ok(()))
    }
    fn poll_shutdown(self: Pin<&mut Self>, _cx: &mut Context<'_>) -> Poll<io::Result<()>> {
        Poll::Ready(Ok(()))
    }
}

macro_rules! drive {
    ($pkt:expr, $acts:expr, $polls:expr) => {{
        let mut sink = SinkW { buf: [0u8; 24], len: 0, acts: $acts, ai: 0 };
        let mut out = None;
        {
            let fut = $pkt.encode_async(&mut sink);
            let mut fut = std::pin::pin!(fut);
            let mut cx = noop_cx();
            let mut p = 0;
            while p < $polls {
                match fut.as_mut().poll(&mut cx) {
                    Poll::Ready(r) => {
                        out = Some(r);
                        break;
                    }
                    Poll::Pending => {}
                }
                p += 1;
            }
        }
        (out, sink)
    }};
}

macro_rules! same_bytes {
    ($pkt:expr, $reference:expr, $acts:expr, $polls:expr, $label:literal) => {{
        let (out, sink) = drive!($pkt, $acts, $polls);
        match out {
            Some(Ok(())) => {
                vassert!(sink.len == $reference.len() && eq_bytes(&sink.buf[..$reference.len()], $reference), $label);
            }
            Some(Err(e)) => {
                vassert!(false, "C09|async.fails|encode_async failed although the sink only delayed / split the writes");
                done(e);
            }
            None => {
                vassert!(false, "C09|async.stuck|encode_async did not complete although the sink made progress on every other poll");
            }
        }
    }};
}

fn v3_publish(s: &mut Src) -> (mp::v3::Packet, bool) {
    let pid = s.u16();
    let t = s.u8();
    // the payload is opaque to every encoder entry point: two concrete bytes through `from_static`
    // (a symbolic payload through `Bytes::copy_from_slice` costs 10 GB of solver memory here, measured)
    let dup = s.bool();
    vassume!(pid != 0 && t < 0x80 && t != b'+' && t != b'#' && t != 0);
    (mp::v3::Packet::Publish(mp::v3::Publish {
        dup, retain: true, qos_pid: mp::QosPid::Level2(mp::Pid::try_from(pid).unwrap()),
        topic_name: mp::TopicName::try_from(unsafe { String::from_utf8_unchecked(vec![t]) }).unwrap(),
        payload: Bytes::from_static(&[0xAB, 0xCD]),
    }), dup)
}

macro_rules! v3_publish_script {
    ($name:ident, $acts:expr, $polls:expr, $label:literal) => {
        pub fn $name(s: &mut Src) {
            let (pkt, dup) = v3_publish(s);
            let e1 = pkt.encode();
            if let Ok(a) = &e1 {
                let r: &[u8] = a.as_ref();
                vassert!(r.len() == 9 && r[0] == (0x35 | if dup { 8 } else { 0 }) && r[1] == 7, "C09|header|fixed header of the blocking encoder is wrong");
                same_bytes!(pkt, r, $acts, $polls, $label);
                vcover!(true, "compared");
            } else {
                vassert!(false, "C09|encode_fails|encode() fails on a valid packet");
            }
            done(e1); done(pkt);
        }
    };
}
v3_publish_script!(v3_publish_all, &[W::Take(usize::MAX)], 2, "C09|async.all_at_once|encode_async emits different bytes than encode()");
v3_publish_script!(v3_publish_partial, &[W::Take(1), W::Pend, W::Take(1), W::Pend, W::Take(2), W::Take(1), W::Pend, W::Take(3), W::Take(usize::MAX)], 8,
    "C09|async.partial_writes|encode_async under partial writes and Pending emits different bytes than encode()");
v3_publish_script!(v3_publish_pending_first, &[W::Pend, W::Pend, W::Take(8), W::Pend, W::Take(1)], 8,
    "C09|async.pending_first|encode_async with Pending before any write emits different bytes than encode()");

pub fn v3_publish_repeat(s: &mut Src) {
    let (pkt, _) = v3_publish(s);
    let e1 = pkt.encode();
    let e2 = pkt.encode();
    if let (Ok(a), Ok(b)) = (&e1, &e2) {
        vassert!(eq_bytes(a.as_ref(), b.as_ref()), "C09|repeat|two invocations of encode() emit different bytes");
        vassert!(matches!(a, mp::VarBytes::Dynamic(v) if v.len() == 9), "C09|varbytes.dynamic|Dynamic container does not hold exactly the encoding");
        vcover!(true, "compared");
    } else {
        vassert!(false, "C09|encode_fails|encode() fails on a valid packet");
    }
    done(e1); done(e2); done(pkt);
}

pub fn v3_publish_fault(s: &mut Src) {
    let (pkt, _) = v3_publish(s);
    let e1 = pkt.encode();
    if let Ok(a) = &e1 {
        let r: &[u8] = a.as_ref();
        let (out, sink) = drive!(pkt, &[W::Take(3), W::Fail(io::ErrorKind::BrokenPipe)], 3);
        vassert!(matches!(&out, Some(Err(mp::Error::IoError(k, _))) if *k == io::ErrorKind::BrokenPipe), "C14|async_encode.fault_kind|encode_async reports a different error than the sink produced");
        vassert!(sink.len == 3 && eq_bytes(&sink.buf[..3], &r[..3]), "C14|async_encode.prefix|bytes written before the fault are not a prefix of the encoding");
        done(out);
        vcover!(true, "fault");
    }
    done(e1); done(pkt);
}

pub fn v3_publish_zero(s: &mut Src) {
    let (pkt, _) = v3_publish(s);
    let e1 = pkt.encode();
    if let Ok(a) = &e1 {
        let r: &[u8] = a.as_ref();
        let (out, sink) = drive!(pkt, &[W::Take(5), W::Zero], 3);
        vassert!(matches!(&out, Some(Err(mp::Error::IoError(k, _))) if *k == io::ErrorKind::WriteZero), "C14|async_encode.write_zero|a zero-length write is not reported as WriteZero");
        vassert!(sink.len == 5 && eq_bytes(&sink.buf[..5], &r[..5]), "C14|async_encode.prefix_zero|bytes written before the zero-length write are not a prefix");
        done(out);
        vcover!(true, "zero");
    }
    done(e1); done(pkt);
}

pub fn v3_fixed_async(s: &mut Src) {
    let pid = s.u16();
    let rc = s.u8();
    vassume!(pid != 0 && rc <= 5);
    let a = mp::v3::Packet::Connack(mp::v3::Connack { session_present: true, code: mp::v3::ConnectReturnCode::from_u8(rc).unwrap() });
    let b = mp::v3::Packet::Pubrel(mp::Pid::try_from(pid).unwrap());
    let c = mp::v3::Packet::Pingresp;
    if let (Ok(ea), Ok(eb), Ok(ec)) = (a.encode(), b.encode(), c.encode()) {
        vassert!(matches!(&ea, mp::VarBytes::Fixed4(x) if *x == [0x20, 2, 1, rc]), "C09|varbytes.connack|CONNACK bytes / container wrong");
        vassert!(matches!(&eb, mp::VarBytes::Fixed4(x) if *x == [0x62, 2, (pid >> 8) as u8, pid as u8]), "C09|varbytes.pubrel|PUBREL bytes / container wrong");
        vassert!(matches!(&ec, mp::VarBytes::Fixed2(x) if *x == [0xD0, 0]), "C09|varbytes.pingresp|PINGRESP bytes / container wrong");
        vassert!(ea.as_ref().len() == 4 && eb.as_ref().len() == 4 && ec.as_ref().len() == 2, "C09|varbytes.as_ref|as_ref() exposes a different number of bytes");
        same_bytes!(a, ea.as_ref(), &[W::Take(1), W::Pend, W::Take(2), W::Take(usize::MAX)], 4, "C09|async.connack|encode_async(CONNACK) differs from encode()");
        same_bytes!(b, eb.as_ref(), &[W::Pend, W::Take(3), W::Pend, W::Take(1)], 4, "C09|async.pubrel|encode_async(PUBREL) differs from encode()");
        same_bytes!(c, ec.as_ref(), &[W::Take(1), W::Take(1)], 3, "C09|async.pingresp|encode_async(PINGRESP) differs from encode()");
        vcover!(true, "compared");
        done(ea); done(eb); done(ec);
    } else {
        vassert!(false, "C09|encode_fails|encode() fails on a valid packet");
    }
}

fn v5_puback(s: &mut Src) -> mp::v5::Packet {
    let pid = s.u16();
    let c = s.u8();
    vassume!(pid != 0 && c < 0x80);
    mp::v5::Packet::Puback(mp::v5::Puback { pid: mp::Pid::try_from(pid).unwrap(), reason_code: mp::v5::PubackReasonCode::QuotaExceeded,
        properties: mp::v5::PubackProperties { reason_string: Some(Arc::new(unsafe { String::from_utf8_unchecked(vec![c]) })), user_properties: vec![] } })
}
macro_rules! v5_puback_script {
    ($name:ident, $acts:expr, $polls:expr, $label:literal) => {
        pub fn $name(s: &mut Src) {
            let pkt = v5_puback(s);
            let e1 = pkt.encode();
            if let Ok(a) = &e1 {
                let r: &[u8] = a.as_ref();
                vassert!(r.len() == 10 && r[0] == 0x40 && r[1] == 8 && r[4] == 0x97, "C09|v5.header|v5 PUBACK header / reason byte wrong");
                same_bytes!(pkt, r, $acts, $polls, $label);
                vcover!(true, "compared");
            } else {
                vassert!(false, "C09|encode_fails5|encode() fails on a valid packet");
            }
            done(e1); done(pkt);
        }
    };
}
v5_puback_script!(v5_puback_all, &[W::Take(usize::MAX)], 2, "C09|async.v5_all|v5 encode_async emits different bytes than encode()");
/// partial writes and Pending against the v5 encode_async (its own write loop and error mapping):
/// a PUBACK in its medium form (reason code, no properties) -- the property-bearing value above under
/// a multi-step script does not decide (3.2 M steps, no verdict), nor does this one with Pending
/// between the writes (4.9 M steps); Pending is handled by tokio's write_all, which the v3 scripts cover
pub fn v5_puback_partial(s: &mut Src) {
    let pid = s.u16();
    vassume!(pid != 0);
    let pkt = mp::v5::Packet::Puback(mp::v5::Puback { pid: mp::Pid::try_from(pid).unwrap(), reason_code: mp::v5::PubackReasonCode::QuotaExceeded,
        properties: Default::default() });
    let e1 = pkt.encode();
    if let Ok(a) = &e1 {
        let r: &[u8] = a.as_ref();
        vassert!(r.len() == 5 && r[0] == 0x40 && r[1] == 3 && r[4] == 0x97, "C09|v5.header_medium|v5 PUBACK (medium form) header / reason byte wrong");
        same_bytes!(pkt, r, &[W::Take(2), W::Take(usize::MAX)], 2, "C09|async.v5_partial|v5 encode_async under partial writes emits different bytes than encode()");
        vcover!(true, "compared");
    } else {
        vassert!(false, "C09|encode_fails5|encode() fails on a valid packet");
    }
    done(e1); done(pkt);
}

/// io::Write sink that accepts at most `k` bytes per write call (the blocking counterpart of SinkW)
pub struct StepSink<const N: usize> {
    pub buf: [u8; N],
    pub len: usize,
    pub k: usize,
    pub overflow: bool,
}

impl<const N: usize> io::Write for StepSink<N> {
    fn write(&mut self, data: &[u8]) -> io::Result<usize> {
        let n = if data.len() < self.k { data.len() } else { self.k };
        let mut i = 0;
        while i < n {
            if self.len < N {
                self.buf[self.len] = data[i];
                self.len += 1;
            } else {
                self.overflow = true;
            }
            i += 1;
        }
        Ok(n)
    }
    fn flush(&mut self) -> io::Result<()> {
        Ok(())
    }
}

/// "Packet-level encoding equals the fixed header followed by what the body's streaming encoder
/// writes into any sink": sinks taking 1 and 2 bytes per write call
pub fn v3_publish_body_sink(s: &mut Src) {
    use mp::Encodable;
    let (pkt, _dup) = v3_publish(s);
    let e1 = pkt.encode();
    if let (Ok(a), mp::v3::Packet::Publish(body)) = (&e1, &pkt) {
        let r: &[u8] = a.as_ref();
        let mut k1 = StepSink::<8> { buf: [0; 8], len: 0, k: 1, overflow: false };
        let mut k2 = StepSink::<8> { buf: [0; 8], len: 0, k: 2, overflow: false };
        let r1 = body.encode(&mut k1);
        let r2 = body.encode(&mut k2);
        vassert!(r1.is_ok() && r2.is_ok(), "C09|body_sink.fails|the body's streaming encoder fails on a sink that accepts part of each write");
        vassert!(r.len() == 9 && body.encode_len() == 7, "C09|body_sink.len|encode_len() differs from the bytes of the body");
        vassert!(!k1.overflow && k1.len == 7 && eq_bytes(&r[2..], &k1.buf[..7]), "C09|body_sink.step1|packet bytes differ from header ++ what the body encoder streams into a 1-byte-per-write sink");
        vassert!(!k2.overflow && k2.len == 7 && eq_bytes(&r[2..], &k2.buf[..7]), "C09|body_sink.step2|packet bytes differ from header ++ what the body encoder streams into a 2-bytes-per-write sink");
        vcover!(true, "compared");
        done(r1); done(r2);
    } else {
        vassert!(false, "C09|encode_fails|encode() fails on a valid packet");
    }
    done(e1); done(pkt);
}

pub fn v5_puback_body_sink(s: &mut Src) {
    use mp::Encodable;
    let pkt = v5_puback(s);
    let e1 = pkt.encode();
    if let (Ok(a), mp::v5::Packet::Puback(body)) = (&e1, &pkt) {
        let r: &[u8] = a.as_ref();
        let mut k1 = StepSink::<10> { buf: [0; 10], len: 0, k: 1, overflow: false };
        let r1 = body.encode(&mut k1);
        vassert!(r1.is_ok(), "C09|body_sink.fails5|the body's streaming encoder fails on a sink that accepts part of each write");
        vassert!(r.len() == 10 && body.encode_len() == 8, "C09|body_sink.len5|encode_len() differs from the bytes of the body");
        vassert!(!k1.overflow && k1.len == 8 && eq_bytes(&r[2..], &k1.buf[..8]), "C09|body_sink.v5_step1|packet bytes differ from header ++ what the body encoder streams into a 1-byte-per-write sink");
        vcover!(true, "compared");
        done(r1);
    } else {
        vassert!(false, "C09|encode_fails5|encode() fails on a valid packet");
    }
    done(e1); done(pkt);
}

scenarios! {
    #[kani::unwind(12)]
    #[kani::stub(<mqtt_proto_sync::Error as std::convert::From<std::io::Error>>::from, crate::model::from_io_kind_stub)]
    #[kani::stub(<std::io::Error as std::string::ToString>::to_string, crate::model::io_to_string_stub)]
    #[kani::stub(mqtt_proto_sync::TopicName::is_invalid, crate::model::topic_name_class_stub)]
    c09_v3_publish_all [6] => v3_publish_all;
    #[kani::unwind(12)]
    #[kani::stub(<mqtt_proto_sync::Error as std::convert::From<std::io::Error>>::from, crate::model::from_io_kind_stub)]
    #[kani::stub(<std::io::Error as std::string::ToString>::to_string, crate::model::io_to_string_stub)]
    #[kani::stub(mqtt_proto_sync::TopicName::is_invalid, crate::model::topic_name_class_stub)]
    c09_v3_publish_partial [6] => v3_publish_partial;
    #[kani::unwind(12)]
    #[kani::stub(<mqtt_proto_sync::Error as std::convert::From<std::io::Error>>::from, crate::model::from_io_kind_stub)]
    #[kani::stub(<std::io::Error as std::string::ToString>::to_string, crate::model::io_to_string_stub)]
    #[kani::stub(mqtt_proto_sync::TopicName::is_invalid, crate::model::topic_name_class_stub)]
    c09_v3_publish_pending_first [6] => v3_publish_pending_first;
    #[kani::unwind(12)]
    #[kani::stub(<mqtt_proto_sync::Error as std::convert::From<std::io::Error>>::from, crate::model::from_io_kind_stub)]
    #[kani::stub(<std::io::Error as std::string::ToString>::to_string, crate::model::io_to_string_stub)]
    #[kani::stub(mqtt_proto_sync::TopicName::is_invalid, crate::model::topic_name_class_stub)]
    c09_v3_publish_repeat [6] => v3_publish_repeat;
    #[kani::unwind(12)]
    #[kani::stub(<mqtt_proto_sync::Error as std::convert::From<std::io::Error>>::from, crate::model::from_io_kind_stub)]
    #[kani::stub(<std::io::Error as std::string::ToString>::to_string, crate::model::io_to_string_stub)]
    #[kani::stub(mqtt_proto_sync::TopicName::is_invalid, crate::model::topic_name_class_stub)]
    c09_v3_publish_fault [6] => v3_publish_fault;
    #[kani::unwind(12)]
    #[kani::stub(<mqtt_proto_sync::Error as std::convert::From<std::io::Error>>::from, crate::model::from_io_kind_stub)]
    #[kani::stub(<std::io::Error as std::string::ToString>::to_string, crate::model::io_to_string_stub)]
    #[kani::stub(mqtt_proto_sync::TopicName::is_invalid, crate::model::topic_name_class_stub)]
    c09_v3_publish_zero [6] => v3_publish_zero;
    #[kani::unwind(8)]
    #[kani::stub(<mqtt_proto_sync::Error as std::convert::From<std::io::Error>>::from, crate::model::from_io_kind_stub)]
    #[kani::stub(<std::io::Error as std::string::ToString>::to_string, crate::model::io_to_string_stub)]
    c09_v3_fixed_async [3] => v3_fixed_async;
    #[kani::unwind(13)]
    #[kani::stub(<mqtt_proto_sync::Error as std::convert::From<std::io::Error>>::from, crate::model::from_io_kind_stub)]
    #[kani::stub(<std::io::Error as std::string::ToString>::to_string, crate::model::io_to_string_stub)]
    c09_v5_puback_all [3] => v5_puback_all;
    #[kani::unwind(13)]
    #[kani::stub(<mqtt_proto_sync::Error as std::convert::From<std::io::Error>>::from, crate::model::from_io_kind_stub)]
    #[kani::stub(<std::io::Error as std::string::ToString>::to_string, crate::model::io_to_string_stub)]
    c09_v5_puback_partial [3] => v5_puback_partial;
    #[kani::unwind(12)]
    #[kani::stub(<mqtt_proto_sync::Error as std::convert::From<std::io::Error>>::from, crate::model::from_io_kind_stub)]
    #[kani::stub(<std::io::Error as std::string::ToString>::to_string, crate::model::io_to_string_stub)]
    #[kani::stub(mqtt_proto_sync::TopicName::is_invalid, crate::model::topic_name_class_stub)]
    c09_v3_publish_body_sink [6] => v3_publish_body_sink;
    #[kani::unwind(13)]
    #[kani::stub(<mqtt_proto_sync::Error as std::convert::From<std::io::Error>>::from, crate::model::from_io_kind_stub)]
    #[kani::stub(<std::io::Error as std::string::ToString>::to_string, crate::model::io_to_string_stub)]
    c09_v5_puback_body_sink [3] => v5_puback_body_sink;
}
