//! Native replay of a solver counterexample against the unmodified crate.
//!
//! usage: replay <scenario> <witness-hex>      run one scenario, print a JSON verdict
//!        replay --list                        list compiled-in scenarios
//!
//! status: "fail"  = at least one obligation of the scenario is violated (or the library panicked)
//!         "pass"  = every obligation holds on this witness
//!         "not_applicable" = the witness violates an assumption of the scenario
#[cfg(kani)]
fn main() {}

#[cfg(not(kani))]
use mvh::rt;
#[cfg(not(kani))]
use std::panic;

#[cfg(not(kani))]
fn esc(s: &str) -> String {
    let mut o = String::new();
    for c in s.chars() {
        match c {
            '"' => o.push_str("\\\""),
            '\\' => o.push_str("\\\\"),
            '\n' => o.push_str("\\n"),
            c if (c as u32) < 0x20 => o.push_str(&format!("\\u{:04x}", c as u32)),
            c => o.push(c),
        }
    }
    o
}

#[cfg(not(kani))]
fn main() {
    let args: Vec<String> = std::env::args().collect();
    let reg = mvh::registry();
    if args.len() >= 2 && args[1] == "--list" {
        for (n, w, _) in &reg {
            println!("{} {}", n, w);
        }
        return;
    }
    if args.len() < 3 {
        eprintln!("usage: replay <scenario> <witness-hex>");
        std::process::exit(64);
    }
    let name = &args[1];
    let hex = args[2].trim();
    let mut w = Vec::new();
    let hb = hex.as_bytes();
    let mut i = 0;
    while i + 1 < hb.len() {
        w.push(u8::from_str_radix(&hex[i..i + 2], 16).expect("hex"));
        i += 2;
    }
    let entry = reg.iter().find(|(n, _, _)| n == name);
    let (_, _, f) = match entry {
        Some(e) => e,
        None => {
            println!("{{\"scenario\":\"{}\",\"status\":\"unknown_scenario\"}}", esc(name));
            std::process::exit(3);
        }
    };
    let f = *f;
    // capture the panic message + location of library panics
    let msg = std::sync::Arc::new(std::sync::Mutex::new(String::new()));
    let m2 = msg.clone();
    panic::set_hook(Box::new(move |info| {
        if info.payload().downcast_ref::<rt::NotApplicable>().is_some() {
            return;
        }
        let mut s = String::new();
        if let Some(p) = info.payload().downcast_ref::<&str>() {
            s.push_str(p);
        } else if let Some(p) = info.payload().downcast_ref::<String>() {
            s.push_str(p);
        }
        if let Some(l) = info.location() {
            s.push_str(&format!(" @ {}:{}", l.file(), l.line()));
        }
        *m2.lock().unwrap() = s;
    }));
    let r = panic::catch_unwind(move || {
        let mut s = rt::Src::new(&w);
        f(&mut s);
    });
    let fails: Vec<String> = rt::FAILS.with(|f| f.borrow().clone());
    let covers: Vec<String> = rt::COVERS.with(|f| f.borrow().clone());
    let mut status = if fails.is_empty() { "pass" } else { "fail" };
    let mut pmsg = String::new();
    if let Err(e) = r {
        if e.downcast_ref::<rt::NotApplicable>().is_some() {
            if fails.is_empty() {
                status = "not_applicable";
            }
        } else {
            status = "fail";
            pmsg = msg.lock().unwrap().clone();
            if pmsg.is_empty() {
                pmsg = "panic".to_owned();
            }
        }
    }
    let fl: Vec<String> = fails.iter().map(|s| format!("\"{}\"", esc(s))).collect();
    let cl: Vec<String> = covers.iter().map(|s| format!("\"{}\"", esc(s))).collect();
    println!(
        "{{\"scenario\":\"{}\",\"profile\":\"{}\",\"status\":\"{}\",\"fails\":[{}],\"panic\":\"{}\",\"covers\":[{}]}}",
        esc(name),
        if cfg!(debug_assertions) { "dev" } else { "release" },
        status,
        fl.join(","),
        esc(&pmsg),
        cl.join(",")
    );
}
