//! C19 -- packet identifier arithmetic; complete domain (all 65535 x 65536 pairs), loop-free.
use crate::mp::{Error, Pid};
use crate::rt::Src;
use std::convert::TryFrom;

/// one step forward on the cycle 1..=65535
fn succ(p: u16) -> u16 {
    if p == 65535 { 1 } else { p + 1 }
}
fn pred(p: u16) -> u16 {
    if p == 1 { 65535 } else { p - 1 }
}
/// closed form of "step u times"
fn fwd(p: u16, u: u16) -> u16 {
    (((p as u32 - 1) + u as u32) % 65535 + 1) as u16
}
fn bwd(p: u16, u: u16) -> u16 {
    (((p as u32 - 1) + 2 * 65535 - u as u32) % 65535 + 1) as u16
}

pub fn add_sub(s: &mut Src) {
    let p = s.u16();
    let u = s.u16();
    vassume!(p != 0);
    let x = Pid::try_from(p).unwrap();
    vassert!((x + u).value() == fwd(p, u), "C19|pid.add.closed_form|Pid + u differs from stepping u times");
    vassert!((x - u).value() == bwd(p, u), "C19|pid.sub.closed_form|Pid - u differs from stepping back u times");
    vassert!((x + u).value() != 0, "C19|pid.add.zero|Pid + u produced 0");
    vassert!((x - u).value() != 0, "C19|pid.sub.zero|Pid - u produced 0");
    vassert!(((x + u) - u) == x, "C19|pid.sub_undoes_add|(p + u) - u != p");
    vassert!(((x - u) + u) == x, "C19|pid.add_undoes_sub|(p - u) + u != p");
    let mut y = x;
    y += u;
    vassert!(y == x + u, "C19|pid.add_assign|+= disagrees with +");
    let mut z = x;
    z -= u;
    vassert!(z == x - u, "C19|pid.sub_assign|-= disagrees with -");
    vcover!(p as u32 + u as u32 > 65535, "addition wraps");
    vcover!(u >= p, "subtraction wraps");
    vcover!(u == 65535, "full cycle");
}

/// the closed forms really are "u single steps": f(p,0)=p and f(p,u+1)=succ(f(p,u)) (induction on u)
pub fn closed_form_is_stepping(s: &mut Src) {
    let p = s.u16();
    let u = s.u16();
    vassume!(p != 0);
    vassert!(fwd(p, 0) == p && bwd(p, 0) == p, "C19|model.base|closed form at 0");
    if u < 65535 {
        vassert!(fwd(p, u + 1) == succ(fwd(p, u)), "C19|model.step|closed form is not single stepping");
        vassert!(bwd(p, u + 1) == pred(bwd(p, u)), "C19|model.step_back|closed form is not single stepping back");
    }
    // and one library step is one cycle step
    let x = Pid::try_from(p).unwrap();
    vassert!((x + 1).value() == succ(p), "C19|pid.add.one|p + 1 is not the successor on the cycle");
    vassert!((x - 1).value() == pred(p), "C19|pid.sub.one|p - 1 is not the predecessor on the cycle");
    vcover!(p == 65535, "wrap point");
}

pub fn try_from(s: &mut Src) {
    let v = s.u16();
    match Pid::try_from(v) {
        Ok(p) => {
            vassert!(v != 0, "C19|pid.try_from.zero_accepted|Pid::try_from(0) succeeded");
            vassert!(p.value() == v, "C19|pid.try_from.value|value() differs from the raw integer");
            vcover!(true, "accepted");
        }
        Err(e) => {
            vassert!(v == 0, "C19|pid.try_from.nonzero_rejected|Pid::try_from(nonzero) failed");
            vassert!(matches!(e, Error::ZeroPid), "C19|pid.try_from.error|wrong error variant");
            vcover!(true, "rejected");
            crate::rt::done(e);
        }
    }
    vassert!(Pid::default().value() == 1, "C19|pid.default|default is not 1");
}

scenarios! {
    c19_add_sub [4] => add_sub;
    c19_closed_form_is_stepping [4] => closed_form_is_stepping;
    c19_try_from [2] => try_from;
}
