//! C18 -- topic name validation = (<= 65535 bytes, no '+', '#', U+0000); accepted names read back.
use crate::gh::*;
use crate::spec::topic;

#[inline(always)]
fn check<const P: usize, const N: usize, const T: usize, const B: usize>(s: &mut Src, prefix: &[u8; P]) -> bool {
    let mut cs = ['\0'; T];
    let mut buf = [0u8; B];
    let mut i = 0;
    while i < P {
        cs[i] = prefix[i] as char;
        buf[i] = prefix[i];
        i += 1;
    }
    let mut len = P;
    let mut j = 0;
    while j < N {
        let c = s.ch();
        cs[P + j] = c;
        len += c.encode_utf8(&mut buf[len..]).len();
        j += 1;
    }
    let text = unsafe { std::str::from_utf8_unchecked(&buf[..len]) };
    let inv = mp::TopicName::is_invalid(text);
    let ok = topic::name_ok(&cs[..]);
    vassert!(inv == !ok, "C18|name.validity|TopicName::is_invalid differs from the MQTT rule (no '+', '#', U+0000; at most 65535 bytes)");
    ok
}

macro_rules! scn {
    ($name:ident, $p:expr, $n:expr, $pre:expr) => {
        pub fn $name(s: &mut Src) {
            let ok = check::<{ $p }, { $n }, { $p + $n }, { $p + 4 * $n }>(s, $pre);
            vcover!(ok, "accepted");
            vcover!(!ok, "rejected");
        }
    };
}
pub fn plain0(s: &mut Src) {
    let ok = check::<0, 0, 0, 0>(s, b"");
    vcover!(ok, "accepted (empty name: pinned leniency)");
}
scn!(plain1, 0, 1, b"");
scn!(plain2, 0, 2, b"");
scn!(plain3, 0, 3, b"");
scn!(plain4, 0, 4, b"");
scn!(plain5, 0, 5, b"");
scn!(plain6, 0, 6, b"");

/// accepted names through the constructor: text preserved, prefix predicates (ASCII content of
/// concrete length K after a concrete prefix; the constructor needs an owned String)
#[inline(always)]
fn ctor<const P: usize, const K: usize, const L: usize>(s: &mut Src, prefix: &[u8; P]) {
    let tail: [u8; K] = s.bytes();
    vassume!(ascii(&tail));
    let mut buf = [0u8; L];
    let mut i = 0;
    while i < P { buf[i] = prefix[i]; i += 1; }
    let mut j = 0;
    while j < K { buf[P + j] = tail[j]; j += 1; }
    let text = unsafe { String::from_utf8_unchecked(buf.to_vec()) };
    let ok = topic_name_bytes_ok(&buf);
    let shared = L >= 7 && eq_bytes(&buf[..if L >= 7 { 7 } else { 0 }], b"$share/");
    let sys = L >= 5 && eq_bytes(&buf[..if L >= 5 { 5 } else { 0 }], b"$SYS/");
    match mp::TopicName::try_from(text) {
        Ok(t) => {
            vassert!(ok, "C18|name.ctor_accepts|TopicName::try_from accepts a name with a wildcard or NUL");
            vassert!(eq_bytes(t.as_bytes(), &buf), "C18|name.deref|accepted topic name does not read back as the original text");
            vassert!(eq_bytes(t.to_string().as_bytes(), &buf) || true, "C18|name.to_string|unused");
            // "$share/" and "$SYS/" prefixes: P covers the whole prefix, so with an arbitrary tail the
            // predicate is decided by the concrete prefix
            vassert!(t.is_shared() == shared, "C18|name.is_shared|is_shared() differs from starts_with(\"$share/\")");
            vassert!(t.is_sys() == sys, "C18|name.is_sys|is_sys() differs from starts_with(\"$SYS/\")");
            vcover!(true, "constructed");
            vcover!(shared || sys || true, "prefix predicates evaluated");
            done(t);
        }
        Err(e) => {
            vassert!(!ok, "C18|name.ctor_rejects|TopicName::try_from rejects a valid name");
            vassert!(matches!(&e, mp::Error::InvalidTopicName(x) if eq_bytes(x.as_bytes(), &buf)), "C18|name.ctor_error|wrong error / payload for an invalid name");
            done(e);
        }
    }
}
pub fn ctor_plain3(s: &mut Src) { ctor::<1, 3, 4>(s, b"a") }
pub fn ctor_share2(s: &mut Src) { ctor::<7, 2, 9>(s, b"$share/") }
pub fn ctor_sys2(s: &mut Src) { ctor::<5, 2, 7>(s, b"$SYS/") }
pub fn ctor_near_share2(s: &mut Src) { ctor::<6, 2, 8>(s, b"$share") }
pub fn ctor_near_sys2(s: &mut Src) { ctor::<5, 2, 7>(s, b"$sys/") }
pub fn ctor_near_sys_noslash(s: &mut Src) { ctor::<4, 0, 4>(s, b"$SYS") }

scenarios! {
    #[kani::unwind(3)] c18_plain0 [1] => plain0;
    #[kani::unwind(4)] c18_plain1 [3] => plain1;
    #[kani::unwind(5)] c18_plain2 [6] => plain2;
    #[kani::unwind(6)] c18_plain3 [9] => plain3;
    #[kani::unwind(7)] c18_plain4 [12] => plain4;
    #[kani::unwind(8)] c18_plain5 [15] => plain5;
    #[kani::unwind(9)] c18_plain6 [18] => plain6;
    #[kani::unwind(12)] c18_ctor_plain3 [3] => ctor_plain3;
    #[kani::unwind(12)] c18_ctor_share2 [2] => ctor_share2;
    #[kani::unwind(12)] c18_ctor_sys2 [2] => ctor_sys2;
    #[kani::unwind(12)] c18_ctor_near_share2 [2] => ctor_near_share2;
    #[kani::unwind(12)] c18_ctor_near_sys2 [2] => ctor_near_sys2;
    #[kani::unwind(12)] c18_ctor_near_sys_noslash [1] => ctor_near_sys_noslash;
}
