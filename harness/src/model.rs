//! Models, stubs and environment doubles (each one is part of every claim that uses it;
//! see DESIGN.md section 3.4).

use std::io;

/// Byte-wise UTF-8 validator written from Unicode Table 3-7 (well-formed byte sequences).
/// Independent of `core::str::from_utf8` / simdutf8; checked against `core` by the
/// lemma harness `utf8_model_matches_core_*`.
pub fn utf8_model(b: &[u8]) -> bool {
    let n = b.len();
    let mut i = 0;
    while i < n {
        let c = b[i];
        if c < 0x80 {
            i += 1;
            continue;
        }
        let (need, lo, hi) = if c >= 0xC2 && c <= 0xDF {
            (1, 0x80u8, 0xBFu8)
        } else if c == 0xE0 {
            (2, 0xA0, 0xBF)
        } else if (c >= 0xE1 && c <= 0xEC) || c == 0xEE || c == 0xEF {
            (2, 0x80, 0xBF)
        } else if c == 0xED {
            (2, 0x80, 0x9F)
        } else if c == 0xF0 {
            (3, 0x90, 0xBF)
        } else if c >= 0xF1 && c <= 0xF3 {
            (3, 0x80, 0xBF)
        } else if c == 0xF4 {
            (3, 0x80, 0x8F)
        } else {
            return false;
        };
        if i + need >= n {
            return false;
        }
        if b[i + 1] < lo || b[i + 1] > hi {
            return false;
        }
        let mut k = 2;
        while k <= need {
            if b[i + k] < 0x80 || b[i + k] > 0xBF {
                return false;
            }
            k += 1;
        }
        i += need + 1;
    }
    true
}

/// topic-name rule of MQTT 4.7 on raw bytes (bytes are assumed UTF-8): no '+', '#', NUL
pub fn topic_name_bytes_ok(b: &[u8]) -> bool {
    let mut i = 0;
    while i < b.len() {
        if b[i] == b'+' || b[i] == b'#' || b[i] == 0 {
            return false;
        }
        i += 1;
    }
    b.len() <= 65535
}

// ---------------------------------------------------------------------------------
// Kani-only stubs
// ---------------------------------------------------------------------------------

/// io::Error -> Error without core::fmt (R4). Only sound where every io::Error on the
/// path is the twin shim's UnexpectedEof (slice readers) -- used by decode harnesses.
#[cfg(kani)]
pub fn from_io_eof_stub(err: io::Error) -> crate::mp::Error {
    std::mem::forget(err);
    crate::mp::Error::IoError(io::ErrorKind::UnexpectedEof, String::new())
}

/// io::Error -> Error keeping the kind, dropping the message (C14 harnesses)
#[cfg(kani)]
pub fn from_io_kind_stub(err: io::Error) -> crate::mp::Error {
    let k = err.kind();
    std::mem::forget(err);
    crate::mp::Error::IoError(k, String::new())
}

/// full UTF-8 model in place of simdutf8 (unit-level harnesses)
#[cfg(kani)]
pub fn from_utf8_model_stub(input: &[u8]) -> Result<&str, simdutf8::basic::Utf8Error> {
    if utf8_model(input) {
        Ok(unsafe { std::str::from_utf8_unchecked(input) })
    } else {
        Err(simdutf8::basic::Utf8Error)
    }
}

/// R3d class stub "every string is valid": the verdict is fixed, the content constrained
#[cfg(kani)]
pub fn from_utf8_assume_valid(input: &[u8]) -> Result<&str, simdutf8::basic::Utf8Error> {
    kani::assume(utf8_model(input));
    Ok(unsafe { std::str::from_utf8_unchecked(input) })
}

/// single-poll executor: the futures we run are ready on first poll or the harness
/// wants to observe Pending itself
pub fn poll_once<F: std::future::Future>(f: &mut std::pin::Pin<&mut F>) -> std::task::Poll<F::Output> {
    let mut cx = std::task::Context::from_waker(std::task::Waker::noop());
    f.as_mut().poll(&mut cx)
}
