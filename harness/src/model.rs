//! Models, stubs and environment doubles (each one is part of every claim that uses it;
//! see DESIGN.md section 3.4).

use std::io;

/// Byte-wise UTF-8 validator written from Unicode Table 3-7 (well-formed byte sequences).
/// Independent of `core::str::from_utf8` / simdutf8; checked against `core` by the
/// lemma harnesses.  Written as a one-byte-per-iteration state machine with no early exit so
/// that the loop counter stays concrete under symbolic execution (a validator that advances
/// by a content-dependent stride makes every later index symbolic).
pub fn utf8_model(b: &[u8]) -> bool {
    let n = b.len();
    let mut ok = true;
    let mut need: u8 = 0; // continuation bytes still expected
    let mut lo: u8 = 0x80; // allowed range of the next continuation byte
    let mut hi: u8 = 0xBF;
    let mut i = 0;
    while i < n {
        let c = b[i];
        if need == 0 {
            if c < 0x80 {
                // ASCII
            } else if c >= 0xC2 && c <= 0xDF {
                need = 1;
                lo = 0x80;
                hi = 0xBF;
            } else if c == 0xE0 {
                need = 2;
                lo = 0xA0;
                hi = 0xBF;
            } else if (c >= 0xE1 && c <= 0xEC) || c == 0xEE || c == 0xEF {
                need = 2;
                lo = 0x80;
                hi = 0xBF;
            } else if c == 0xED {
                need = 2;
                lo = 0x80;
                hi = 0x9F;
            } else if c == 0xF0 {
                need = 3;
                lo = 0x90;
                hi = 0xBF;
            } else if c >= 0xF1 && c <= 0xF3 {
                need = 3;
                lo = 0x80;
                hi = 0xBF;
            } else if c == 0xF4 {
                need = 3;
                lo = 0x80;
                hi = 0x8F;
            } else {
                ok = false;
            }
        } else {
            if c < lo || c > hi {
                ok = false;
            }
            need -= 1;
            lo = 0x80;
            hi = 0xBF;
        }
        i += 1;
    }
    ok && need == 0
}

/// topic-name rule of MQTT 4.7 on raw bytes (bytes are assumed UTF-8): no '+', '#', NUL
pub fn topic_name_bytes_ok(b: &[u8]) -> bool {
    let mut ok = b.len() <= 65535;
    let mut i = 0;
    while i < b.len() {
        if b[i] == b'+' || b[i] == b'#' || b[i] == 0 {
            ok = false;
        }
        i += 1;
    }
    ok
}

/// MQTT 4.7 on raw bytes for filters that are not shared subscriptions and whose content is
/// ASCII (callers assume bytes < 0x80): non-empty, no NUL, '#' alone in the last level,
/// '+' alone in its level. A filter starting with "$share/" is outside this predicate's
/// domain and reported as not-ok (packet-level harnesses keep filters non-shared).
pub fn plain_filter_bytes_ok(b: &[u8]) -> bool {
    let n = b.len();
    if n == 0 || n > 65535 {
        return false;
    }
    if n >= 7 && b[0] == b'$' && b[1] == b's' && b[2] == b'h' && b[3] == b'a' && b[4] == b'r' && b[5] == b'e' && b[6] == b'/' {
        return false;
    }
    let mut ok = true;
    let mut i = 0;
    while i < n {
        let c = b[i];
        if c == 0 || c >= 0x80 {
            ok = false;
        }
        let at_start = i == 0 || b[i - 1] == b'/';
        let at_end = i + 1 == n || b[i + 1] == b'/';
        if c == b'#' && !(at_start && i + 1 == n) {
            ok = false;
        }
        if c == b'+' && !(at_start && at_end) {
            ok = false;
        }
        i += 1;
    }
    ok
}

// ---------------------------------------------------------------------------------
// Kani-only stubs
// ---------------------------------------------------------------------------------

/// io::Error -> Error without core::fmt (R4). Only sound where every io::Error on the
/// path is the twin shim's UnexpectedEof (slice readers) -- used by decode harnesses.
#[cfg(kani)]
pub fn from_io_eof_stub(err: io::Error) -> crate::mp::Error {
    std::mem::forget(err);
    crate::mp::Error::IoError(io::ErrorKind::UnexpectedEof, String::new())
}

/// io::Error -> Error keeping the kind, dropping the message (C14 harnesses)
#[cfg(kani)]
pub fn from_io_kind_stub(err: io::Error) -> crate::mp::Error {
    let k = err.kind();
    std::mem::forget(err);
    crate::mp::Error::IoError(k, String::new())
}

/// `io::Error::to_string()` without core::fmt: the message text of an I/O error is not part of any
/// property (the kind is); used where the v5 decoders build `Error::IoError(kind, err.to_string())` by hand
/// (Kani resolves the path to the blanket `impl<T: Display> ToString for T`, so the stub replaces every
/// `to_string()` of the query; the decode/encode paths call it on `io::Error` only.)
#[cfg(kani)]
pub fn io_to_string_stub<T: std::fmt::Display + ?Sized>(_e: &T) -> String {
    String::new()
}

/// full UTF-8 model in place of simdutf8 (unit-level harnesses)
#[cfg(kani)]
pub fn from_utf8_model_stub(input: &[u8]) -> Result<&str, simdutf8::basic::Utf8Error> {
    if utf8_model(input) {
        Ok(unsafe { std::str::from_utf8_unchecked(input) })
    } else {
        Err(simdutf8::basic::Utf8Error)
    }
}

/// R3d class stub "every string is valid": the verdict is fixed, the content constrained
#[cfg(kani)]
pub fn from_utf8_assume_valid(input: &[u8]) -> Result<&str, simdutf8::basic::Utf8Error> {
    kani::assume(utf8_model(input));
    Ok(unsafe { std::str::from_utf8_unchecked(input) })
}

// ---- R3d class stubs: the verdict of each validator call is fixed per query ---------------
// "valid" class: every call assumes its input valid and answers "valid".
// "invalid" class queries mark the one field that is to be invalid by its *length*: the shape
// gives that field 3 bytes and every other field validated by the same function a different
// length, so the verdict is a constant of the (concrete) length.  (An earlier version selected
// the call by a `static mut` counter; writing statics from a stub made CBMC's heap model report
// spurious dealloc-size mismatches elsewhere, so stubs hold no state.)
pub const BAD_LEN: usize = 3;

/// kept for source compatibility of generated scenarios; class selection is by stub choice
pub fn set_classes(_utf8_bad: usize, _name_bad: usize, _filter_bad: usize) {}

#[cfg(kani)]
pub fn from_utf8_class_stub(input: &[u8]) -> Result<&str, simdutf8::basic::Utf8Error> {
    kani::assume(utf8_model(input));
    Ok(unsafe { std::str::from_utf8_unchecked(input) })
}

#[cfg(kani)]
pub fn from_utf8_bad_len3(input: &[u8]) -> Result<&str, simdutf8::basic::Utf8Error> {
    if input.len() == BAD_LEN {
        kani::assume(!utf8_model(input));
        Err(simdutf8::basic::Utf8Error)
    } else {
        kani::assume(utf8_model(input));
        Ok(unsafe { std::str::from_utf8_unchecked(input) })
    }
}

#[cfg(kani)]
pub fn topic_name_class_stub(value: &str) -> bool {
    kani::assume(topic_name_bytes_ok(value.as_bytes()));
    false
}

#[cfg(kani)]
pub fn topic_name_bad_len3(value: &str) -> bool {
    if value.len() == BAD_LEN {
        kani::assume(!topic_name_bytes_ok(value.as_bytes()));
        true
    } else {
        kani::assume(topic_name_bytes_ok(value.as_bytes()));
        false
    }
}

/// packet-level harnesses use ASCII-only, non-shared filter content (chars = bytes); the
/// validator itself is decided by the C16 unit harnesses over all Unicode scalars
#[cfg(kani)]
pub fn topic_filter_class_stub(value: &str) -> (bool, u16) {
    if value.len() == 0 {
        // the empty filter is invalid whatever its (absent) content: constant verdict of a concrete length
        return (true, 0);
    }
    kani::assume(plain_filter_bytes_ok(value.as_bytes()));
    (false, 0)
}

#[cfg(kani)]
pub fn topic_filter_bad_len3(value: &str) -> (bool, u16) {
    if value.len() == 0 {
        return (true, 0);
    }
    if value.len() == BAD_LEN {
        kani::assume(!plain_filter_bytes_ok(value.as_bytes()));
        (true, 0)
    } else {
        kani::assume(plain_filter_bytes_ok(value.as_bytes()));
        (false, 0)
    }
}

// ---- C07 prefix scenarios: *asserting* valid-class stubs --------------------------------------
// The prefix scenarios assume every validated field of the complete frame valid in their prelude,
// so a validator that runs on a completely read field always sees valid bytes.  These stubs keep
// the constant verdict "valid" (R3d) but *assert* instead of assume: a decoder that validates an
// operand before it has been read completely (a partly filled, zero-padded buffer) reaches the
// assertion with bytes that are not a field of the frame.  An assuming stub would prune exactly
// those paths.  The counterexample is replayed natively with the real validators.
#[cfg(kani)]
pub fn from_utf8_complete_stub(input: &[u8]) -> Result<&str, simdutf8::basic::Utf8Error> {
    crate::vassert!(utf8_model(input), "C07|validator.partial_utf8|a UTF-8 check ran on bytes that are not a completely read, valid field of the frame (validation before the operand is fully read)");
    Ok(unsafe { std::str::from_utf8_unchecked(input) })
}

#[cfg(kani)]
pub fn topic_name_complete_stub(value: &str) -> bool {
    crate::vassert!(topic_name_bytes_ok(value.as_bytes()), "C07|validator.partial_name|the topic-name check ran on bytes that are not a completely read, valid field of the frame");
    false
}

#[cfg(kani)]
pub fn topic_filter_complete_stub(value: &str) -> (bool, u16) {
    if value.len() == 0 {
        return (true, 0);
    }
    crate::vassert!(plain_filter_bytes_ok(value.as_bytes()), "C07|validator.partial_filter|the topic-filter check ran on bytes that are not a completely read, valid field of the frame");
    (false, 0)
}

/// `vec![elem; n]` with a fixed capacity: keeps the heap object's size concrete when `n` is a
/// symbolic term (R2).  For n > K the block is K elements long while `len` says n, so any access
/// beyond K is caught by CBMC's bounds checks instead of being missed.
#[cfg(kani)]
pub fn from_elem_fixed<T: Clone>(elem: T, n: usize) -> Vec<T> {
    const K: usize = 8;
    let mut v: Vec<T> = Vec::with_capacity(K);
    let m = if n <= K { n } else { K };
    let mut i = 0;
    while i < m {
        v.push(elem.clone());
        i += 1;
    }
    if n > K {
        unsafe { v.set_len(n) };
    }
    v
}

/// single-poll executor: the futures we run are ready on first poll or the harness
/// wants to observe Pending itself
pub fn poll_once<F: std::future::Future>(f: &mut std::pin::Pin<&mut F>) -> std::task::Poll<F::Output> {
    let mut cx = std::task::Context::from_waker(std::task::Waker::noop());
    f.as_mut().poll(&mut cx)
}
