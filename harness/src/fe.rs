//! Front-end drivers and transport doubles shared by the packet-level scenarios.
//!
//! `SliceRd` is the environment stub for the transport of the poll decoder: it is a real
//! `tokio::io::AsyncRead` (the poll decoder is the real `common/poll.rs`), copies element-wise
//! (keeps structural constants visible to symbolic execution) and records what the decoder
//! asked for, so that "never requests bytes beyond the frame" is observable.

use crate::mp;
use crate::rt::done;
use std::future::Future;
use std::io;
use std::mem::MaybeUninit;
use std::pin::Pin;
use std::task::{Context, Poll, Waker};
use tokio::io::{AsyncRead, ReadBuf};

/// always-ready reader over a slice; delivers `min(capacity, chunk, available)` bytes per read
pub struct SliceRd<'a> {
    pub data: &'a [u8],
    pub pos: usize,
    /// upper bound on bytes per read (usize::MAX = as many as asked for)
    pub chunk: usize,
    /// sum over reads of the capacity offered, capped by what the frame still holds -- and the
    /// largest end position the decoder was prepared to accept bytes for
    pub max_end_requested: usize,
    pub reads: usize,
}

impl<'a> SliceRd<'a> {
    pub fn new(data: &'a [u8]) -> Self {
        SliceRd { data, pos: 0, chunk: usize::MAX, max_end_requested: 0, reads: 0 }
    }
}

impl<'a> AsyncRead for SliceRd<'a> {
    fn poll_read(mut self: Pin<&mut Self>, _cx: &mut Context<'_>, buf: &mut ReadBuf<'_>) -> Poll<io::Result<()>> {
        let me = &mut *self;
        me.reads += 1;
        let cap = buf.remaining();
        if me.pos + cap > me.max_end_requested {
            me.max_end_requested = me.pos + cap;
        }
        let avail = me.data.len() - me.pos;
        let mut k = if cap < avail { cap } else { avail };
        if me.chunk < k {
            k = me.chunk;
        }
        let dst = buf.initialize_unfilled_to(k);
        let mut i = 0;
        while i < k {
            dst[i] = me.data[me.pos + i];
            i += 1;
        }
        buf.advance(k);
        me.pos += k;
        Poll::Ready(Ok(()))
    }
}

#[inline]
pub fn noop_cx() -> Context<'static> {
    Context::from_waker(Waker::noop())
}

/// copy of a returned poll body buffer into plain bytes (every element was written by the reader)
pub fn body_bytes<const N: usize>(v: &Vec<MaybeUninit<u8>>) -> [u8; N] {
    let mut out = [0u8; N];
    let mut i = 0;
    while i < N {
        if i < v.len() {
            out[i] = unsafe { v[i].assume_init() };
        }
        i += 1;
    }
    out
}

pub fn eq_bytes(a: &[u8], b: &[u8]) -> bool {
    if a.len() != b.len() {
        return false;
    }
    let mut i = 0;
    while i < a.len() {
        if a[i] != b[i] {
            return false;
        }
        i += 1;
    }
    true
}

macro_rules! family {
    ($m:ident, $fam:ident, $err:ty) => {
        pub mod $m {
            use super::*;
            use mp::PollHeader;
            pub type Pkt = mp::$fam::Packet;
            pub type Hdr = mp::$fam::Header;
            pub type Err = $err;
            pub type State = mp::$fam::PollPacketState;

            /// The strict (poll-based) decoder on one complete frame, composed from its parts:
            /// `PollHeader::new_with`, `build_empty_packet`, `remaining_len`, `block_decode`,
            /// `is_eof_error` of the real `Header` (twin), glued exactly as the specification of
            /// `GenericPollPacket::poll` prescribes.  That the real `common/poll.rs` equals this
            /// glue for *every* `PollHeader` implementation, every stream and every delivery
            /// schedule is what the C05 harnesses decide (generic header type); bytes that travel
            /// through poll.rs's `Vec<MaybeUninit<u8>>` lose their constness for symbolic execution
            /// (MaybeUninit is a union), which is why packet-level queries use the composition.
            /// Returns (result with total size, number of body bytes block_decode consumed).
            pub fn strict(ctrl: u8, rem: u32, hlen: usize, body: &[u8]) -> (Result<(usize, Pkt), Err>, usize) {
                let header = match <Hdr as PollHeader>::new_with(ctrl, rem) {
                    Ok(h) => h,
                    Err(e) => return (Err(e), 0),
                };
                if let Some(p) = header.build_empty_packet() {
                    return (Ok((hlen, p)), 0);
                }
                if header.remaining_len() == 0 {
                    return (Err(mp::Error::InvalidRemainingLength.into()), 0);
                }
                let mut rd: &[u8] = body;
                let r = header.block_decode(&mut rd);
                let used = body.len() - rd.len();
                // no value is ever dropped here: drop glue of Packet/Error is expensive for symex (R6)
                match r {
                    Ok(p) => {
                        if used != body.len() {
                            done(p);
                            (Err(mp::Error::InvalidRemainingLength.into()), used)
                        } else {
                            (Ok((hlen + rem as usize, p)), used)
                        }
                    }
                    Err(e) => {
                        if <Hdr as PollHeader>::is_eof_error(&e) {
                            done(e);
                            (Err(mp::Error::InvalidRemainingLength.into()), used)
                        } else {
                            (Err(e), used)
                        }
                    }
                }
            }

            /// the real poll decoder, one uninterrupted poll over the whole input (native replay and
            /// small concrete-header harnesses): (result, bytes consumed, highest end offset requested)
            pub fn poll_all(data: &[u8]) -> (Result<(usize, Vec<MaybeUninit<u8>>, Pkt), Err>, usize, usize) {
                let mut st = State::default();
                let mut rd = SliceRd::new(data);
                let r = {
                    let mut fut = mp::$fam::PollPacket::new(&mut st, &mut rd);
                    let mut cx = noop_cx();
                    match Pin::new(&mut fut).poll(&mut cx) {
                        Poll::Ready(r) => r,
                        Poll::Pending => {
                            vassert!(false, "C05|poll.pending_on_ready_reader|poll returned Pending although the transport never did");
                            crate::rt::not_applicable()
                        }
                    }
                };
                std::mem::forget(st);
                (r, rd.pos, rd.max_end_requested)
            }

            /// the async front-end on a slice: (result, bytes consumed)
            pub fn async_all(data: &[u8]) -> (Result<Pkt, Err>, usize) {
                let mut rd: &[u8] = data;
                let r = dec!(Pkt::decode_async(&mut rd));
                (r, data.len() - rd.len())
            }

            pub fn blocking(data: &[u8]) -> Result<Option<Pkt>, Err> {
                Pkt::decode(data)
            }
        }
    };
}

family!(v3, v3, mp::Error);
family!(v5, v5, mp::v5::ErrorV5);

/// Transport double for the async decoder: delivers `data`, but the read that would go beyond
/// `limit` bytes fails with `kind` (after delivering nothing more) -- "a read error injected at that
/// position".  Under Kani it implements the twin's never-pending reader trait, natively tokio's
/// AsyncRead (one byte per poll, so that every `read_exact` is split as finely as possible).
pub struct FaultRd<'a> {
    pub data: &'a [u8],
    pub pos: usize,
    pub limit: usize,
    pub kind: io::ErrorKind,
}

#[cfg(kani)]
impl<'a> mp::sync_shim::AsyncRead for FaultRd<'a> {
    fn read_exact(&mut self, buf: &mut [u8]) -> io::Result<usize> {
        let n = buf.len();
        let mut i = 0;
        while i < n {
            if self.pos >= self.limit {
                return Err(io::Error::from(self.kind));
            }
            if self.pos >= self.data.len() {
                return Err(mp::sync_shim::eof());
            }
            buf[i] = self.data[self.pos];
            self.pos += 1;
            i += 1;
        }
        Ok(n)
    }
}

#[cfg(not(kani))]
impl<'a> AsyncRead for FaultRd<'a> {
    fn poll_read(mut self: Pin<&mut Self>, _cx: &mut Context<'_>, buf: &mut ReadBuf<'_>) -> Poll<io::Result<()>> {
        let me = &mut *self;
        if buf.remaining() == 0 {
            return Poll::Ready(Ok(()));
        }
        if me.pos >= me.limit {
            return Poll::Ready(Err(io::Error::from(me.kind)));
        }
        if me.pos >= me.data.len() {
            return Poll::Ready(Ok(()));
        }
        buf.put_slice(&me.data[me.pos..me.pos + 1]);
        me.pos += 1;
        Poll::Ready(Ok(()))
    }
}
