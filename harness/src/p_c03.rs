//! C03 -- decoders are total and memory-safe on arbitrary bytes: every byte string of length <= 2
//! through the blocking front-ends and Header::decode of both families (all of Kani's overflow /
//! bounds / pointer / unwrap / unreachable / unwinding checks are obligations); longer inputs are
//! covered structurally by the per-shape scenarios of C04/C06/C07/C12/C20 (every Kani check in them
//! is an obligation as well) and by the C05 steps for the poll buffer discipline.
use crate::fe;
use crate::gh::*;

#[inline(always)]
fn any_v3<const N: usize>(s: &mut Src) {
    let b: [u8; N] = s.bytes();
    let r3 = fe::v3::blocking(&b);
    vcover!(matches!(&r3, Ok(None)), "incomplete");
    vcover!(matches!(&r3, Err(_)) || N < 2, "error (from two bytes on)");
    vcover!(matches!(&r3, Ok(Some(_))) || N < 2, "packet (from two bytes on)");
    vassert!(N >= 2 || !matches!(&r3, Ok(Some(_))), "C03|decode.packet_from_nothing|a packet was decoded from fewer than two bytes");
    let h3 = mp::v3::Header::decode(&b);
    done(r3); done(h3);
}
#[inline(always)]
fn any_v5<const N: usize>(s: &mut Src) {
    let b: [u8; N] = s.bytes();
    let r5 = fe::v5::blocking(&b);
    vcover!(matches!(&r5, Ok(None)), "incomplete");
    vcover!(matches!(&r5, Err(_)) || N < 2, "error (from two bytes on)");
    vcover!(matches!(&r5, Ok(Some(_))) || N < 2, "packet (from two bytes on)");
    vassert!(N >= 2 || !matches!(&r5, Ok(Some(_))), "C03|decode.packet_from_nothing5|a packet was decoded from fewer than two bytes");
    let h5 = mp::v5::Header::decode(&b);
    done(r5); done(h5);
}
pub fn v3_any0(s: &mut Src) { any_v3::<0>(s) }
pub fn v3_any1(s: &mut Src) { any_v3::<1>(s) }
pub fn v3_any2(s: &mut Src) { any_v3::<2>(s) }
pub fn v5_any0(s: &mut Src) { any_v5::<0>(s) }
pub fn v5_any1(s: &mut Src) { any_v5::<1>(s) }
pub fn v5_any2(s: &mut Src) { any_v5::<2>(s) }
/// headers with every remaining-length spelling (up to 5 bytes after the control byte)
pub fn header6(s: &mut Src) {
    let b: [u8; 6] = s.bytes();
    let h3 = mp::v3::Header::decode(&b);
    let h5 = mp::v5::Header::decode(&b);
    if let Ok(h) = &h3 {
        vassert!(h.remaining_len <= 268_435_455, "C03|header.remaining_len|decoded remaining length exceeds the maximum");
        vcover!(h.remaining_len == 268_435_455, "maximal remaining length");
    }
    if let Ok(h) = &h5 {
        vassert!(h.remaining_len <= 268_435_455, "C03|header5.remaining_len|decoded remaining length exceeds the maximum");
    }
    done(h3); done(h5);
}

scenarios! {
    #[kani::unwind(8)]
    #[kani::stub(<mqtt_proto_sync::Error as std::convert::From<std::io::Error>>::from, crate::model::from_io_eof_stub)]
    #[kani::stub(<std::io::Error as std::string::ToString>::to_string, crate::model::io_to_string_stub)]
    #[kani::stub(simdutf8::basic::from_utf8, crate::model::from_utf8_class_stub)]
    c03_v3_any0 [1] => v3_any0;
    #[kani::unwind(8)]
    #[kani::stub(<mqtt_proto_sync::Error as std::convert::From<std::io::Error>>::from, crate::model::from_io_eof_stub)]
    #[kani::stub(<std::io::Error as std::string::ToString>::to_string, crate::model::io_to_string_stub)]
    #[kani::stub(simdutf8::basic::from_utf8, crate::model::from_utf8_class_stub)]
    c03_v3_any1 [1] => v3_any1;
    #[kani::unwind(8)]
    #[kani::stub(<mqtt_proto_sync::Error as std::convert::From<std::io::Error>>::from, crate::model::from_io_eof_stub)]
    #[kani::stub(<std::io::Error as std::string::ToString>::to_string, crate::model::io_to_string_stub)]
    #[kani::stub(simdutf8::basic::from_utf8, crate::model::from_utf8_class_stub)]
    c03_v3_any2 [2] => v3_any2;
    #[kani::unwind(8)]
    #[kani::stub(<mqtt_proto_sync::Error as std::convert::From<std::io::Error>>::from, crate::model::from_io_eof_stub)]
    #[kani::stub(<std::io::Error as std::string::ToString>::to_string, crate::model::io_to_string_stub)]
    #[kani::stub(simdutf8::basic::from_utf8, crate::model::from_utf8_class_stub)]
    c03_v5_any0 [1] => v5_any0;
    #[kani::unwind(8)]
    #[kani::stub(<mqtt_proto_sync::Error as std::convert::From<std::io::Error>>::from, crate::model::from_io_eof_stub)]
    #[kani::stub(<std::io::Error as std::string::ToString>::to_string, crate::model::io_to_string_stub)]
    #[kani::stub(simdutf8::basic::from_utf8, crate::model::from_utf8_class_stub)]
    c03_v5_any1 [1] => v5_any1;
    #[kani::unwind(8)]
    #[kani::stub(<mqtt_proto_sync::Error as std::convert::From<std::io::Error>>::from, crate::model::from_io_eof_stub)]
    #[kani::stub(<std::io::Error as std::string::ToString>::to_string, crate::model::io_to_string_stub)]
    #[kani::stub(simdutf8::basic::from_utf8, crate::model::from_utf8_class_stub)]
    c03_v5_any2 [2] => v5_any2;
    #[kani::unwind(8)]
    #[kani::stub(<mqtt_proto_sync::Error as std::convert::From<std::io::Error>>::from, crate::model::from_io_eof_stub)]
    #[kani::stub(<std::io::Error as std::string::ToString>::to_string, crate::model::io_to_string_stub)]
    c03_header6 [6] => header6;
}
