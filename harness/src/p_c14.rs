//! C14 -- transport failures surface as I/O errors of the same kind.
//! (poll decoder: the C05 step scripts "transport error here / after one byte" and "end of stream here",
//!  labelled C14 there, are selected into this property's check as well.)
use crate::gh::*;
use std::io;

const KINDS: [io::ErrorKind; 6] = [
    io::ErrorKind::UnexpectedEof,
    io::ErrorKind::ConnectionReset,
    io::ErrorKind::BrokenPipe,
    io::ErrorKind::TimedOut,
    io::ErrorKind::WriteZero,
    io::ErrorKind::Other,
];

/// conversions codec error -> std::io::Error: I/O kind preserved, protocol errors -> InvalidData
pub fn to_io_error(s: &mut Src) {
    let v = s.u8();
    let mut i = 0;
    while i < KINDS.len() {
        let k = KINDS[i];
        let e = mp::Error::IoError(k, String::new());
        vassert!(e.is_eof() == (k == io::ErrorKind::UnexpectedEof), "C14|error.is_eof|is_eof() differs from kind == UnexpectedEof");
        let io_e: io::Error = e.into();
        vassert!(io_e.kind() == k, "C14|error.into_io.kind|converting IoError(kind) to std::io::Error changes the kind");
        done(io_e);
        let e5 = mp::v5::ErrorV5::Common(mp::Error::IoError(k, String::new()));
        vassert!(e5.is_eof() == (k == io::ErrorKind::UnexpectedEof), "C14|error5.is_eof|ErrorV5::is_eof() differs from kind == UnexpectedEof");
        done(e5);
        i += 1;
    }
    let protos = [mp::Error::InvalidRemainingLength, mp::Error::EmptySubscription, mp::Error::ZeroPid, mp::Error::InvalidQos(v),
        mp::Error::InvalidConnectFlags(v), mp::Error::InvalidConnackFlags(v), mp::Error::InvalidConnectReturnCode(v),
        mp::Error::UnexpectedProtocol(mp::Protocol::V500), mp::Error::InvalidHeader, mp::Error::InvalidVarByteInt, mp::Error::InvalidString];
    let mut j = 0;
    while j < protos.len() {
        vassert!(!protos[j].is_eof(), "C14|error.proto_not_eof|a protocol error is reported as eof");
        j += 1;
    }
    for e in protos {
        let io_e: io::Error = e.into();
        vassert!(io_e.kind() == io::ErrorKind::InvalidData, "C14|error.into_io.invalid_data|a protocol error does not convert to InvalidData");
        done(io_e);
    }
    vassert!(!mp::v5::ErrorV5::InvalidPayloadFormat.is_eof() && !mp::v5::ErrorV5::InvalidPropertyId(v).is_eof(), "C14|error5.proto_not_eof|a v5 protocol error is reported as eof");
    vcover!(true, "done");
}

/// sink that accepts `limit` bytes in total (short writes allowed), then fails with `kind`
/// or answers Ok(0)
pub struct FailSink<const N: usize> {
    pub buf: [u8; N],
    pub len: usize,
    pub limit: usize,
    pub zero: bool,
    pub kind: io::ErrorKind,
}
impl<const N: usize> io::Write for FailSink<N> {
    fn write(&mut self, data: &[u8]) -> io::Result<usize> {
        let room = self.limit - self.len;
        if room == 0 && !data.is_empty() {
            return if self.zero { Ok(0) } else { Err(io::Error::from(self.kind)) };
        }
        let k = if data.len() < room { data.len() } else { room };
        let mut i = 0;
        while i < k {
            if self.len < N {
                self.buf[self.len] = data[i];
            }
            self.len += 1;
            i += 1;
        }
        Ok(k)
    }
    fn flush(&mut self) -> io::Result<()> {
        Ok(())
    }
}

#[inline(always)]
fn stream_faults<E: mp::Encodable, const BL: usize>(body: &E, from: usize, to: usize) {
    let mut good = ArrSink::<BL>::new();
    let r0 = body.encode(&mut good);
    vassert!(r0.is_ok() && good.len == BL && !good.overflow, "C14|stream.reference|reference encoding has an unexpected size");
    done(r0);
    // fault positions from..to (the positions of a body are split over several harnesses)
    let mut limit = from;
    while limit < to && limit < BL {
        let mut z = 0;
        while z < 2 {
            let mut sink = FailSink::<BL> { buf: [0u8; BL], len: 0, limit, zero: z == 1, kind: io::ErrorKind::BrokenPipe };
            let r = body.encode(&mut sink);
            match &r {
                Ok(()) => {
                    vassert!(false, "C14|stream.fault_swallowed|the streaming encoder returned Ok although the sink failed / stopped accepting bytes");
                }
                Err(e) => {
                    let want = if z == 1 { io::ErrorKind::WriteZero } else { io::ErrorKind::BrokenPipe };
                    vassert!(e.kind() == want, "C14|stream.fault_kind|the streaming encoder reports a different I/O error kind than the sink produced");
                }
            }
            vassert!(sink.len == limit && eq_bytes(&sink.buf[..limit], &good.buf[..limit]), "C14|stream.prefix|bytes accepted before the fault are not a prefix of the correct encoding");
            done(r);
            z += 1;
        }
        limit += 1;
    }
    vcover!(true, "all fault positions of this range");
}

fn stream_v3_publish_r(s: &mut Src, from: usize, to: usize) {
    let pid = s.u16();
    let t = s.u8();
    let pay: [u8; 2] = s.bytes();
    vassume!(pid != 0 && t < 0x80 && t != b'+' && t != b'#' && t != 0);
    let body = mp::v3::Publish {
        dup: false, retain: false, qos_pid: mp::QosPid::Level1(mp::Pid::try_from(pid).unwrap()),
        topic_name: mp::TopicName::try_from(unsafe { String::from_utf8_unchecked(vec![t]) }).unwrap(),
        payload: Bytes::copy_from_slice(&pay),
    };
    stream_faults::<_, 7>(&body, from, to);
    done(body);
}
pub fn stream_v3_publish_a(s: &mut Src) { stream_v3_publish_r(s, 0, 4) }
pub fn stream_v3_publish_b(s: &mut Src) { stream_v3_publish_r(s, 4, 7) }
fn stream_v3_connect_r(s: &mut Src, from: usize, to: usize) {
    let ka = s.u16();
    let c = s.u8();
    let pw: [u8; 1] = s.bytes();
    vassume!(c < 0x80);
    let body = mp::v3::Connect { protocol: mp::Protocol::V311, clean_session: true, keep_alive: ka,
        client_id: Arc::new(unsafe { String::from_utf8_unchecked(vec![c]) }), last_will: None,
        username: Some(Arc::new(unsafe { String::from_utf8_unchecked(vec![c]) })), password: Some(Bytes::copy_from_slice(&pw)) };
    stream_faults::<_, 19>(&body, from, to);
    done(body);
}
pub fn stream_v3_connect_a(s: &mut Src) { stream_v3_connect_r(s, 0, 5) }
pub fn stream_v3_connect_b(s: &mut Src) { stream_v3_connect_r(s, 5, 10) }
pub fn stream_v3_connect_c(s: &mut Src) { stream_v3_connect_r(s, 10, 15) }
pub fn stream_v3_connect_d(s: &mut Src) { stream_v3_connect_r(s, 15, 19) }
fn stream_v5_puback_r(s: &mut Src, from: usize, to: usize) {
    let pid = s.u16();
    let c = s.u8();
    vassume!(pid != 0 && c < 0x80);
    let body = mp::v5::Puback { pid: mp::Pid::try_from(pid).unwrap(), reason_code: mp::v5::PubackReasonCode::NotAuthorized,
        properties: mp::v5::PubackProperties { reason_string: Some(Arc::new(unsafe { String::from_utf8_unchecked(vec![c]) })), user_properties: vec![] } };
    stream_faults::<_, 8>(&body, from, to);
    done(body);
}
pub fn stream_v5_puback_a(s: &mut Src) { stream_v5_puback_r(s, 0, 4) }
pub fn stream_v5_puback_b(s: &mut Src) { stream_v5_puback_r(s, 4, 8) }
fn stream_v5_publish_r(s: &mut Src, from: usize, to: usize) {
    let t = s.u8();
    let pay: [u8; 2] = s.bytes();
    let al = s.u16();
    vassume!(t < 0x80 && t != b'+' && t != b'#' && t != 0);
    let body = mp::v5::Publish { dup: false, retain: false, qos_pid: mp::QosPid::Level0,
        topic_name: mp::TopicName::try_from(unsafe { String::from_utf8_unchecked(vec![t]) }).unwrap(),
        payload: Bytes::copy_from_slice(&pay),
        properties: mp::v5::PublishProperties { payload_is_utf8: None, message_expiry_interval: None, topic_alias: Some(al), response_topic: None,
            correlation_data: None, user_properties: vec![], subscription_id: None, content_type: None } };
    stream_faults::<_, 9>(&body, from, to);
    done(body);
}
pub fn stream_v5_publish_a(s: &mut Src) { stream_v5_publish_r(s, 0, 5) }
pub fn stream_v5_publish_b(s: &mut Src) { stream_v5_publish_r(s, 5, 9) }

scenarios! {
    #[kani::unwind(14)] c14_to_io_error [1] => to_io_error;
    #[kani::unwind(10)]
    #[kani::stub(mqtt_proto_sync::TopicName::is_invalid, crate::model::topic_name_class_stub)]
    c14_stream_v3_publish_a [5] => stream_v3_publish_a;
    #[kani::unwind(10)]
    #[kani::stub(mqtt_proto_sync::TopicName::is_invalid, crate::model::topic_name_class_stub)]
    c14_stream_v3_publish_b [5] => stream_v3_publish_b;
    #[kani::unwind(22)] c14_stream_v3_connect_a [4] => stream_v3_connect_a;
    #[kani::unwind(22)] c14_stream_v3_connect_b [4] => stream_v3_connect_b;
    #[kani::unwind(22)] c14_stream_v3_connect_c [4] => stream_v3_connect_c;
    #[kani::unwind(22)] c14_stream_v3_connect_d [4] => stream_v3_connect_d;
    #[kani::unwind(11)] c14_stream_v5_puback_a [3] => stream_v5_puback_a;
    #[kani::unwind(11)] c14_stream_v5_puback_b [3] => stream_v5_puback_b;
    #[kani::unwind(12)]
    #[kani::stub(mqtt_proto_sync::TopicName::is_invalid, crate::model::topic_name_class_stub)]
    c14_stream_v5_publish_a [5] => stream_v5_publish_a;
    #[kani::unwind(12)]
    #[kani::stub(mqtt_proto_sync::TopicName::is_invalid, crate::model::topic_name_class_stub)]
    c14_stream_v5_publish_b [5] => stream_v5_publish_b;
}
