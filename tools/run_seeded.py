#!/usr/bin/env python3
"""Apply each seeded change to /repo, run the listed checks (quick tier, evidence untouched), undo.
usage: run_seeded.py [<seed-id> ...]      results are merged into seeded/<id>/meta.json"""
import json, os, re, subprocess, sys, time

VERIF = os.path.dirname(os.path.dirname(os.path.abspath(__file__)))
PLAN = {
    "C01-1": ["C05", "C01"], "C01-2": ["C01", "C04"], "C02-1": ["C15", "C02"], "C02-2": ["C02", "C10"],
    "C04-1": ["C04"], "C04-2": ["C04"], "C05-1": ["C05"], "C05-2": ["C05"], "C06-1": ["C05", "C06"], "C06-2": ["C04", "C06"],
    "C10-1": ["C10"], "C10-2": ["C10"], "C11-1": ["C15", "C11"], "C11-2": ["C10", "C11"], "C12-1": ["C16", "C12"], "C12-2": ["C12"],
    "C14-1": ["C07", "C14"], "C14-2": ["C14"], "C20-1": ["C05", "C20"], "C20-2": ["C20", "C04"],
    # second round
    "C03-1": ["C12", "C03"], "C03-2": ["C05"], "C07-1": ["C07"], "C07-2": ["C07"], "C08-1": ["C05", "C08"], "C08-2": ["C08", "C06"],
    "C09-1": ["C09"], "C09-2": ["C09"], "C13-1": ["C13"], "C13-2": ["C13"], "C15-1": ["C15"], "C15-2": ["C15"],
    "C16-1": ["C16"], "C16-2": ["C16", "C06"], "C17-1": ["C16", "C17"], "C17-2": ["C17"], "C18-1": ["C18"], "C18-2": ["C18"],
    "C19-1": ["C19"], "C19-2": ["C19"],
    # third round
    "C07-3": ["C07", "C04"], "C08-3": ["C08", "C04"], "C11-3": ["C11", "C02"],
}


def sh(cmd, **kw):
    return subprocess.run(cmd, stdout=subprocess.PIPE, stderr=subprocess.STDOUT, text=True, **kw)


WT = "/tmp/seed-wt"


def plan_from_env():
    p = os.environ.get("SEED_PLAN")
    if p:
        out = {}
        for item in p.split(";"):
            k, v = item.split("=")
            out[k] = v.split(",")
        return out
    return PLAN


def main():
    """runs against a scratch worktree of /repo's HEAD with the patch applied (VERIF_REPO), with its own
    build cache, so that /repo itself and the registered checks' caches are never touched"""
    plan = plan_from_env()
    ids = sys.argv[1:] or sorted(plan)
    env = dict(os.environ, VERIF_REPO=WT, VERIF_CACHE="/var/tmp/mqtt-verif-seed", VERIF_VIOLATIONS="/var/tmp/mqtt-verif-seed/violations")
    sh(["git", "-C", "/repo", "worktree", "remove", "--force", WT])
    r = sh(["git", "-C", "/repo", "worktree", "add", "--detach", WT, "HEAD"])
    assert r.returncode == 0, r.stdout
    if os.path.exists("/repo/Cargo.lock"):
        import shutil
        shutil.copy("/repo/Cargo.lock", WT + "/Cargo.lock")
    try:
        for sid in ids:
            d = os.path.join(VERIF, "seeded", sid)
            meta = json.load(open(os.path.join(d, "meta.json")))
            sh(["git", "-C", WT, "checkout", "--", "."])
            r = sh(["git", "-C", WT, "apply", os.path.join(d, "patch.diff")])
            if r.returncode != 0:
                print(sid, "patch does not apply", r.stdout)
                continue
            runs = []
            detected = []
            for chk in plan[sid]:
                t0 = time.time()
                only = os.environ.get("SEED_ONLY")  # restrict the quick tier to the harnesses matching a regex (a subset of the registered run)
                p = subprocess.run([os.path.join(VERIF, "check"), chk, "--tier", "quick", "--no-evidence"] + (["--only", only] if only else []), cwd=VERIF, env=env,
                                   stdout=subprocess.PIPE, stderr=subprocess.STDOUT, text=True)
                lines = [l for l in p.stdout.splitlines() if re.match(r"^(VIOLATION|UNDECIDED|NOT-REPRODUCED|KNOWN-FINDING|INCONCLUSIVE|TWIN-MISMATCH)", l)]
                viol = [l.strip() for l in p.stdout.splitlines() if l.startswith("  violation:")]
                runs.append({"check": chk, "only": only, "exit": p.returncode, "seconds": round(time.time() - t0), "lines": lines[:12], "observed": viol[:6]})
                if p.returncode == 1:
                    detected.append(chk)
                print(sid, chk, "exit", p.returncode, round(time.time() - t0), "s", (viol[:1] or lines[:1]))
                sys.stdout.flush()
            prev = [r for r in meta.get("checks_run", []) if r["check"] not in [x["check"] for x in runs]]
            meta["checks_run"] = prev + runs
            meta["detected_by"] = sorted(set([r["check"] for r in meta["checks_run"] if r["exit"] == 1]))
            meta["how_run"] = "scratch worktree of /repo HEAD with patch.diff applied, passed to the checks as VERIF_REPO (own build cache); /repo itself untouched"
            json.dump(meta, open(os.path.join(d, "meta.json"), "w"), indent=1)
    finally:
        sh(["git", "-C", "/repo", "worktree", "remove", "--force", WT])


if __name__ == "__main__":
    main()
