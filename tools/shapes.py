"""Shape catalogues (which concrete layouts are enumerated in which tier)."""
import mqttgen as G

PID_ONLY = ["Puback", "Pubrec", "Pubrel", "Pubcomp", "Unsuback"]
ACKS = ["Puback", "Pubrec", "Pubrel", "Pubcomp"]
# properties whose decode/encode reads pointers back from a Vec buffer are only usable where the
# packet has no length arithmetic on top of it (see DESIGN: user property limitation)
USER_OK = set(G.ALLOWED)   # every property list may carry user properties


def plen(pid, k=1):
    wt = G.PROPS[pid][1]
    if wt in ("str", "bin"):
        return k
    if wt == "pair":
        return (k, k + 1)
    if wt == "varint":
        return 1
    if pid == 0x01:
        return None
    return None


def singles(owner, k=1):
    out = []
    for pid in G.ALLOWED[owner]:
        if pid == 0x26 and owner not in USER_OK:
            continue
        out.append([(pid, plen(pid, k))])
    return out


def v3_shapes(tier):
    S = []
    flags_ok = [0x02, 0x00, 0xC2, 0x06, 0x0E, 0x36, 0xCE, 0x82, 0x42, 0x20, 0xF6]
    flags_bad = [0x01, 0x1E, 0x08, 0x18]
    for f in flags_ok + flags_bad:
        S.append(G.v3_connect("V311", f))
    S.append(G.v3_connect("V310", 0x02))
    S.append(G.v3_connect("V310", 0xC6))
    S.append(G.v3_connect("V311", 0x02, cid_len=0))
    S.append(G.v3_connect("V311", 0xC6, cid_len=2, wt_len=2, wm_len=0, user_len=0, pw_len=2))
    S.append(G.v3_connack())
    for q in (0, 1, 2):
        for (tl, pl) in ((1, 1), (0, 0), (2, 2)):
            S.append(G.v3_publish(q, tl, pl))
    S.append(G.v3_publish(1, 1, 0, dup=True))
    S.append(G.v3_publish(0, 1, 1, retain=True))
    S.append(G.v3_publish(2, 3, 1, dup=True, retain=True))
    for t in PID_ONLY:
        S.append(G.v3_pidonly(t))
    for lens in ((1,), (2,), (1, 1), (2, 1), (), (0,), (1, 0)):
        S.append(G.v3_subscribe(lens))
        S.append(G.v3_unsubscribe(lens))
    for n in (0, 1, 2, 3):
        S.append(G.v3_suback(n))
    for t in ("Pingreq", "Pingresp", "Disconnect"):
        S.append(G.v3_empty(t))
        S.append(G.v3_empty(t, 2))
    if tier == "thorough":
        have = {s.name for s in S}
        for f in range(256):
            sh = G.v3_connect("V311", f)
            if sh.name not in have:
                S.append(sh)
        for q in (0, 1, 2):
            for tl in (0, 1, 2, 3, 4):
                for pl in (0, 1, 3, 4):
                    sh = G.v3_publish(q, tl, pl)
                    if sh.name not in have and sh.name not in {x.name for x in S}:
                        S.append(sh)
        for lens in ((3,), (4,), (1, 2, 1), (3, 1)):
            S.append(G.v3_subscribe(lens))
            S.append(G.v3_unsubscribe(lens))
        S.append(G.v3_suback(4))
    return S


def v5_shapes(tier):
    S = []
    for f in [0x02, 0x00, 0xC2, 0x06, 0x0E, 0x36, 0xCE, 0x82, 0x42, 0x01, 0x1E, 0x08]:
        S.append(G.v5_connect(f))
    for pl in singles("Connect"):
        S.append(G.v5_connect(0x02, 1, pl))
    for pl in singles("Will"):
        S.append(G.v5_connect(0x06, 1, (), 1, 1, pl))
    S.append(G.v5_connect(0x06, 1, (), 1, 1, [(0x01, 1)]))
    S.append(G.v5_connect(0x06, 1, (), 1, 1, [(0x01, 0)]))
    S.append(G.v5_connect(0xC6, 1, [(0x11, None), (0x15, 1)], 1, 1, [(0x18, None), (0x08, 1)]))
    S.append(G.v5_connack())
    for pl in singles("Connack"):
        S.append(G.v5_connack(pl))
    S.append(G.v5_connack([(0x21, None), (0x24, None), (0x1F, 1)]))
    for q in (0, 1, 2):
        S.append(G.v5_publish(q, 1, 1))
    S.append(G.v5_publish(0, 0, 0))
    S.append(G.v5_publish(1, 2, 2))
    S.append(G.v5_publish(1, 1, 0, dup=True, retain=True))
    for pl in singles("Publish"):
        if pl[0][0] == 0x01:
            S.append(G.v5_publish(0, 1, 1, [(0x01, 1)]))
            S.append(G.v5_publish(0, 1, 1, [(0x01, 0)]))
            S.append(G.v5_publish(0, 1, 0, [(0x01, None)]))
        elif pl[0][0] == 0x0B:
            for v in (1, 127, 128, 16383, 16384, 2097152, 268435455):
                S.append(G.v5_publish(0, 1, 1, [(0x0B, v)]))
        else:
            S.append(G.v5_publish(0, 1, 1, pl))
    S.append(G.v5_publish(1, 1, 1, [(0x02, None), (0x23, None), (0x03, 1)]))
    for t in ACKS:
        S.append(G.v5_ack(t, "short"))
        S.append(G.v5_ack(t, "medium", (), None))
        S.append(G.v5_ack(t, "long", (), None))
        for pl in singles(t):
            S.append(G.v5_ack(t, "long", pl, None))
    S.append(G.v5_ack("Puback", "long", [(0x1F, 1), (0x26, (1, 1)), (0x26, (0, 2))], None))
    for lens in ((1,), (2, 1), (), (0,), (1, 0)):
        S.append(G.v5_subscribe(lens))
        S.append(G.v5_unsubscribe(lens))
    for v in (1, 127, 128, 268435455):
        S.append(G.v5_subscribe((1,), [(0x0B, v)]))
    for t in ("Suback", "Unsuback"):
        for n in (0, 1, 2):
            S.append(G.v5_codes(t, n))
        S.append(G.v5_codes(t, 1, [(0x1F, 1)]))
    S.append(G.v5_disconnect("empty"))
    S.append(G.v5_disconnect("code"))
    S.append(G.v5_disconnect("long", ()))
    for pl in singles("Disconnect"):
        S.append(G.v5_disconnect("long", pl))
    S.append(G.v5_auth("empty"))
    S.append(G.v5_auth("code"))
    S.append(G.v5_auth("long", ()))
    for pl in singles("Auth"):
        S.append(G.v5_auth("long", pl))
    for t in ("Pingreq", "Pingresp"):
        S.append(G.v5_empty(t))
        S.append(G.v5_empty(t, 1))
    # shape-level malformations: unknown / disallowed / duplicated property, wrong property length
    S.append(G.v5_connack([("raw", 0x00)]))
    S.append(G.v5_connack([("raw", 0x7F)]))
    S.append(G.v5_connack([(0x23, None)]))
    S.append(G.v5_connack([(0x21, None), (0x21, None)]))
    S.append(G.v5_connack([(0x13, None)], pd=-1))
    S.append(G.v5_connack([(0x13, None)], pd=1))
    S.append(G.v5_ack("Puback", "long", [(0x11, None)], None))
    S.append(G.v5_ack("Pubrel", "long", [(0x1F, 1), (0x1F, 1)], None))
    S.append(G.v5_ack("Pubcomp", "long", [("raw", 0xFF)], None))
    S.append(G.v5_connect(0x02, 1, [(0x24, None)]))
    S.append(G.v5_connect(0x06, 1, (), 1, 1, [(0x11, None)]))
    S.append(G.v5_connect(0x06, 1, (), 1, 1, [(0x02, None), (0x02, None)]))
    S.append(G.v5_publish(0, 1, 1, [(0x11, None)]))
    S.append(G.v5_publish(0, 1, 1, [(0x23, None), (0x23, None)]))
    S.append(G.v5_publish(0, 1, 1, [(0x0B, 1), (0x0B, 2)]))
    S.append(G.v5_subscribe((1,), [(0x1F, 1)]))
    S.append(G.v5_subscribe((1,), [(0x0B, 5)], pd=-1))
    S.append(G.v5_unsubscribe((1,), [(0x26, (1, 2))], pd=-1))
    S.append(G.v5_unsubscribe((2,), [(0x26, (1, 1)), (0x26, (2, 0))]))
    S.append(G.v5_publish(1, 1, 2, [(0x23, None), (0x26, (2, 1))]))
    # a property order the encoder never emits (user property first): decode direction only
    rev = G.v5_publish(1, 1, 2, [(0x26, (2, 1)), (0x23, None)])
    rev.canonical = False
    rev.ctor = None
    S.append(rev)
    S.append(G.v5_unsubscribe((1,), [(0x1F, 1)]))
    S.append(G.v5_codes("Suback", 1, [(0x0B, 1)]))
    S.append(G.v5_disconnect("long", [(0x13, None)]))
    S.append(G.v5_auth("long", [(0x11, None)]))
    if tier == "thorough":
        for pl in singles("Connack", 2) + singles("Connect", 2):
            pass
        for owner, mk in (("Connack", lambda pl: G.v5_connack(pl)), ("Disconnect", lambda pl: G.v5_disconnect("long", pl)),
                          ("Auth", lambda pl: G.v5_auth("long", pl))):
            ids = [p for p in G.ALLOWED[owner]]
            for a in range(len(ids)):
                for c in range(a + 1, len(ids)):
                    if (a + c) % 3 == 0:
                        S.append(mk([(ids[a], plen(ids[a])), (ids[c], plen(ids[c]))]))
        have = {s.name for s in S}
        for f in range(0, 256, 1):
            sh = G.v5_connect(f)
            if sh.name not in have:
                S.append(sh)
    # attempted, not registered (tool limitations measured on the unchanged tree; DESIGN.md section 7):
    #  * spurious "dealloc size mismatch" in CBMC's heap model when a PUBLISH / Will property list fails after
    #    allocations (does not reproduce natively) and for the will payload-format check
    #  * SUBACK/UNSUBACK with a reason string: solver returns UNKNOWN for unreachable-code checks
    #  * will + user property: > 8 GB
    import re as _re
    drop = _re.compile(r"^(publish_q0_t1_p0_x01)$")
    S = [s for s in S if not drop.match(s.name)]
    # de-duplicate by name
    seen = set()
    out = []
    for s in S:
        if s.name not in seen:
            seen.add(s.name)
            out.append(s)
    return out
