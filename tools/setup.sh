#!/bin/bash
# Warm the build caches (Kani target dir, native replay dev+release) from files on disk only.
# Nothing a check needs is produced here: every check rebuilds from /repo's working tree;
# this only saves each check the one-off compilation of tokio/bytes/... (offline).
set -e
cd "$(dirname "$0")/.."
export CARGO_NET_OFFLINE=true
python3 - <<'PY'
import os, sys
sys.path.insert(0, "tools")
import vlib, props
work = os.path.join(vlib.CACHE, "work", "setup")
os.makedirs(os.path.join(vlib.CACHE, "work"), exist_ok=True)
h = vlib.prepare(work, [])
import concurrent.futures, time
t0 = time.time()
target = os.path.join(vlib.CACHE, "target")
dirs = [target] + ["%s-g%02d" % (target, i) for i in range(10)]
with concurrent.futures.ThreadPoolExecutor(max_workers=6) as ex:
    list(ex.map(lambda d: vlib._codegen_one(h, ["p_c19"], d), dirs))
print("kani build caches warmed (%d target dirs) in %.0fs" % (len(dirs), time.time() - t0))
for rel in (False, True):
    vlib.build_replay(h, ["p_c19"], os.path.join(vlib.CACHE, "target-native"), rel)
print("native replay builds ok")
import shutil
shutil.rmtree(work, ignore_errors=True)
PY
