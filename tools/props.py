"""Per-property configuration: which scenario modules run in which tier, budgets,
and the statements that go into the evidence files."""

COMMON_ASSUMPTIONS = [
    "Kani 0.68 MIR->GOTO translation, CBMC 6.11 symbolic execution and CaDiCaL are sound; Kani models allocation as infallible",
    "decode paths are analysed on the sync twin regenerated from /repo on this run (async/await erased mechanically, "
    "tools/desync.py; the diff is in coverage.twin); every alarm is replayed against the unmodified crate before it is reported",
    "bounds are enforced by unwinding assertions: a too-small bound is reported as undecided, never as held",
]

import gens

GENERATORS = {"probe": gens.gen_probe, "c04_quick": gens.gen_c04("quick"), "c04_thorough": gens.gen_c04("thorough"),
              "c10_quick": gens.gen_c10("quick"), "c10_thorough": gens.gen_c10("thorough"),
              "c12_quick": gens.gen_c12("quick"), "c12_thorough": gens.gen_c12("thorough"),
              "c20_quick": gens.gen_c20("quick"), "c20_thorough": gens.gen_c20("thorough"),
              "c01_quick": gens.gen_c01("quick"), "c01_thorough": gens.gen_c01("thorough"),
              "c02_quick": gens.gen_c02("quick"), "c02_thorough": gens.gen_c02("thorough")}

# interim reasons while the framework is being built (kept current with every commit)
NOT_YET = {}


PROPS = {
    "PROBE": {"level": "model_checking", "claim": "", "note": "", "not_applicable": "internal cost probe",
              "tiers": {"quick": {"modules": ["g_probe"], "generators": ["probe"], "timeout_s": 300, "mem_gb": 12},
                        "thorough": {"modules": ["p_probe"], "timeout_s": 100, "mem_gb": 12}}},
    "C04": {
        "level": "model_checking",
        "claim": "For every enumerated frame shape of every v3.1/v3.1.1/v5.0 packet type (concrete lengths, presence bits, property-id sequences and "
                 "connect flags; every content byte, identifier, code and option symbolic) the solver decides that the strict decoder accepts exactly when "
                 "the spec-side constraints hold and that every returned field equals the value the specification assigns to those bytes.",
        "note": "strict decoder = composition new_with + build_empty_packet + block_decode + exact-consumption/eof mapping on the sync twin "
                "(equivalence of common/poll.rs with that composition for every PollHeader is C05's obligation); string validators replaced by class stubs "
                "(all-valid class here; invalid classes under C12/C20); spec layout/tables in tools/mqttgen.py",
        "functions": ["Header::new_with (v3, v5)", "PollHeader::{build_empty_packet, block_decode, remaining_len, is_eof_error}", "every packet body decode_async (twin)",
                      "decode_properties! expansions", "read_string/read_bytes/read_u8/u16/u32/decode_var_int"],
        "bounds": {"quick": "197 shapes: text/binary lengths 0..2, <= 3 topics/codes, every single allowed property per packet (user property only where usable), "
                            "selected connect-flag bytes, boundary subscription identifiers, shape-level malformations (unknown/disallowed/duplicate property, wrong property length)",
                   "thorough": "all 256 connect-flag bytes (v3.1.1 and v5), lengths up to 4, property pairs"},
        "outside": "contents longer than 4 bytes; user properties in PUBLISH/SUBSCRIBE/SUBACK/UNSUBSCRIBE/UNSUBACK (CBMC loses pointers read back from Vec buffers: spurious results, see DESIGN); "
                   "string fields in more than one invalid class at a time; shared-subscription filters inside packets (C16/C17 cover the validator)",
        "assumptions": ["pinned leniencies of DESIGN.md section 3.5 are part of the reference grammar"],
        "tiers": {
            "quick": {"modules": ["g_c04_v3", "g_c04_v5"], "generators": ["c04_quick"], "timeout_s": 600, "mem_gb": 8, "jobs": 14},
            "thorough": {"modules": ["g_c04_v3", "g_c04_v5"], "generators": ["c04_thorough"], "timeout_s": 1200, "mem_gb": 10, "jobs": 12},
        },
    },
    "C10": {
        "level": "model_checking",
        "claim": "For every enumerated canonical shape the packet value is built from symbolic field values inside the valid domain and the solver decides that "
                 "Packet::encode and the streaming body encoder emit byte-for-byte the wire image written down from the OASIS specifications "
                 "(type/flag nibbles, minimal remaining length, big-endian integers, length-prefixed strings, property ids and wire types, reason-code numbers).",
        "note": "the spec wire image (tools/mqttgen.py) plays the role of the independent decoder: bytes == layout(fields) is equivalent to, and stronger than, "
                "an independent decoder recovering the fields; constructors' validators replaced by class stubs (valid class)",
        "functions": ["Packet::encode (v3, v5)", "encode_packet", "write_var_int", "every Encodable::encode", "encode_properties! expansions", "VarBytes::as_ref"],
        "bounds": {"quick": "canonical shapes of the C04 catalogue (lengths 0..2, single properties, selected connect flags)", "thorough": "thorough C04 catalogue"},
        "outside": "as C04; values whose encoding the encoder cannot emit (non-canonical spellings) are C11's subject",
        "tiers": {
            "quick": {"modules": ["g_c10_v3", "g_c10_v5"], "generators": ["c10_quick"], "timeout_s": 600, "mem_gb": 8, "jobs": 14,
                      "heavy": {r"__encp$": (900, 20)}},
            "thorough": {"modules": ["g_c10_v3", "g_c10_v5"], "generators": ["c10_thorough"], "timeout_s": 1200, "mem_gb": 10, "jobs": 12},
        },
    },
    "C05": {
        "level": "model_checking",
        "claim": "The real common/poll.rs (GenericPollPacket::poll), instantiated with a harness PollHeader whose answers cover every behaviour class "
                 "(header refused / empty packet / body decoded / bytes left over / eof error / other error), is checked by inductive steps: from the "
                 "representation-invariant state of every stream position (a fresh future = dropped and re-created) one poll against every script of a family "
                 "(Pending first; 1 byte; as much as offered; two reads; three reads; end of stream here; transport error here / after one byte) either returns Pending "
                 "only if the transport did and leaves the invariant state of the new position, or returns exactly the result and byte count of one uninterrupted read, "
                 "never requesting bytes beyond the frame. Chaining steps covers every delivery schedule and any number of re-creations for the enumerated streams.",
        "note": "stream headers are concrete (minimal and non-minimal length spellings, 1..5 header bytes, remaining length 0..4 and 130), body bytes symbolic; positions and "
                "scripts are concrete per step because a symbolic schedule makes every stream index symbolic (measured: does not terminate). The real v3/v5 Header "
                "implementations are composed with this result in fe::strict (same generic source).",
        "functions": ["GenericPollPacket::poll (twin copy of common/poll.rs, only #[repr(u8)] added to the state enum)", "GenericPollPacketState::default"],
        "bounds": {"all": "17 streams x every position x 8 scripts; bodies up to 4 bytes (130 for the long-length prefix); header length 2..6"},
        "outside": "bodies longer than 4 bytes at full length; schedules are covered by induction over the invariant, which is part of the trusted argument; "
                   "the real Header types inside the poll loop (bytes read back from the MaybeUninit buffer are not constants for symbolic execution)",
        "tiers": {"quick": {"modules": ["p_c05"], "select": r"^(?!c05_steps_all_rem4$)", "timeout_s": 600, "mem_gb": 10, "jobs": 16}, "thorough": {"modules": ["p_c05"], "timeout_s": 1800, "mem_gb": 16}},
    },
    "C12": {
        "level": "model_checking",
        "claim": "For every text-bearing field role of both families the query in which exactly that validator call is in its invalid class shows the frame is "
                 "rejected (never a packet holding invalid UTF-8 / an invalid topic), and the all-valid queries show every returned string equals the validated bytes, "
                 "packet identifiers are non-zero and variable-byte-integer fields are below 2^28.",
        "note": "class stubs fix each validator verdict per query (invalid class: assume(!model(input)); Err); the validators themselves are C16-C18 and the UTF-8 lemma; "
                "a decoder path that skips a validator leaves the content unconstrained and fails the accepted-packet obligations",
        "functions": ["read_string", "TopicName::try_from / TopicFilter::try_from call sites in every body decoder", "decode_properties! string arms", "v5 payload format checks"],
        "bounds": {"quick": "25 text-bearing shapes, strings of 1-2 bytes, one invalid field at a time", "thorough": "+8 shapes, strings up to 4 bytes"},
        "outside": "two or more invalid fields at once; strings longer than 4 bytes; shared-subscription filters in packets",
        "tiers": {"quick": {"modules": ["g_c12"], "generators": ["c12_quick"], "timeout_s": 600, "mem_gb": 8, "jobs": 14},
                  "thorough": {"modules": ["g_c12"], "generators": ["c12_thorough"], "timeout_s": 1200, "mem_gb": 10, "jobs": 12}},
    },
    "C20": {
        "level": "model_checking",
        "claim": "For each catalogue malformation the single-violation obligation is decided: whenever exactly one spec-side constraint of a shape is violated "
                 "(symbolic scalar: zero pid, QoS 3, return/reason code outside the table, reserved flag/option bits, bad boolean property; shape-level: connect flags, "
                 "empty subscription, unknown/duplicated/disallowed property, wrong property length, body on a body-less packet; class-level: non-UTF-8 string, wildcard in topic "
                 "name, invalid filter, invalid response topic, invalid payload format) the strict decoder returns the documented variant carrying the offending value.",
        "note": "strict decoder composition as in C04; agreement of the blocking/async front-ends with it is C06",
        "functions": ["as C04"],
        "bounds": {"all": "one shape per packet type for scalar malformations, every shape-level malformation of the C04 catalogue, invalid-class queries for 12 (quick) / all (thorough) text shapes"},
        "outside": "two simultaneous malformations (any error accepted); InvalidRemainingLength-vs-incomplete split is C06/C07's subject",
        "tiers": {"quick": {"modules": ["g_c20"], "generators": ["c20_quick"], "timeout_s": 600, "mem_gb": 8, "jobs": 14},
                  "thorough": {"modules": ["g_c20"], "generators": ["c20_thorough"], "timeout_s": 1200, "mem_gb": 10, "jobs": 12}},
    },
    "C01": {
        "level": "model_checking",
        "claim": "Round trip per canonical shape, split as DESIGN R3c prescribes: (i) the body encoder's bytes equal the spec wire image of the symbolic field values and "
                 "(ii) the strict decoder on that wire image returns exactly those field values with the exact total; (i) and (ii) together are decode(encode(p)) = p for the shape.",
        "note": "poll front-end via the C05 composition; blocking/async agreement is C06; packet-level header glue is C09/C10",
        "functions": ["Encodable::encode of every body", "every body decode_async (twin)", "strict decoder composition"],
        "bounds": {"quick": "about 90 canonical shapes (every packet type, every property once)", "thorough": "all canonical shapes of the C04 catalogue"},
        "outside": "as C04 and C10",
        "tiers": {"quick": {"modules": ["g_c01"], "generators": ["c01_quick"], "timeout_s": 600, "mem_gb": 8, "jobs": 14},
                  "thorough": {"modules": ["g_c01"], "generators": ["c01_thorough"], "timeout_s": 1200, "mem_gb": 10, "jobs": 12}},
    },
    "C02": {
        "level": "model_checking",
        "claim": "For every canonical shape: bytes written by the streaming body encoder = encode_len() = the specification's body size; for one shape per packet type "
                 "Packet::encode emits encode_len() bytes with a minimal remaining-length field equal to the bytes that follow. The debug assertion in encode_packet is an "
                 "obligation too (Kani analyses the dev profile); replay runs dev and release.",
        "note": "width boundaries of the remaining length (127/128 ... 268435455/268435456) are decided for total_len/var_int_len/write_var_int over their complete domains by C15",
        "functions": ["every Encodable::{encode, encode_len}", "Packet::{encode, encode_len}", "encode_packet", "total_len"],
        "bounds": {"quick": "canonical shapes of the C04 catalogue", "thorough": "thorough catalogue"},
        "outside": "field contents longer than 4 bytes (length arithmetic on them is linear; boundaries via C15)",
        "tiers": {"quick": {"modules": ["g_c02_v3", "g_c02_v5"], "generators": ["c02_quick"], "timeout_s": 600, "mem_gb": 8, "jobs": 14},
                  "thorough": {"modules": ["g_c02_v3", "g_c02_v5"], "generators": ["c02_thorough"], "timeout_s": 1200, "mem_gb": 10, "jobs": 12}},
    },
    "C19": {
        "level": "model_checking",
        "claim": "Every (Pid, u16) pair is symbolic: the solver shows + / - / += / -= / try_from agree with the cycle 1..=65535 closed form, "
                 "never yield 0, and that the closed form is single-stepping. No bound other than the types, so this is the complete domain.",
        "note": "trusted: Kani/CBMC/CaDiCaL; common/types.rs is byte-identical in the twin for this code (see coverage.twin)",
        "functions": ["<Pid as Add<u16>>::add", "<Pid as Sub<u16>>::sub", "AddAssign/SubAssign", "Pid::try_from", "Pid::value", "Pid::default"],
        "bounds": {"all": "none: all 65535 x 65536 (Pid, amount) pairs are symbolic; loop-free"},
        "outside": "nothing (complete domain)",
        "assumptions": ["'stepping u times' is discharged by a closed form plus an inductive-step harness for the closed form"],
        "tiers": {
            "quick": {"modules": ["p_c19"], "timeout_s": 300, "mem_gb": 8},
            "thorough": {"modules": ["p_c19"], "timeout_s": 600, "mem_gb": 8},
        },
    },
    "C15": {
        "level": "model_checking",
        "claim": "var_int_len/total_len/header_len/remaining_len over the whole usize domain, the variable-byte-integer writer for every v < 2^28 "
                 "(minimal form, reported size, no overrun) and the reader on every byte string of length <= 6 (value, bytes consumed, "
                 "eof vs InvalidVarByteInt) are decided by the solver against an independent reference.",
        "note": "trusted: Kani/CBMC/CaDiCaL; writer reached through SubscribeProperties::encode, reader through decode_raw_header on the sync twin; "
                "io::Error->Error conversion stubbed (message text dropped)",
        "functions": ["var_int_len", "total_len", "header_len", "remaining_len", "write_var_int (via SubscribeProperties::encode)",
                      "decode_var_int (via decode_raw_header, twin)", "VarByteInt::try_from"],
        "bounds": {"all": "helpers: whole usize domain; writer: all v < 2^28; reader: every byte string of length 0..=6 (all continuation patterns of five length bytes)"},
        "outside": "nothing for the helpers/writer/reader; the poll decoder's header state machine is covered by the poll-family harnesses",
        "tiers": {
            "quick": {"modules": ["p_c15"], "timeout_s": 300, "mem_gb": 8},
            "thorough": {"modules": ["p_c15"], "timeout_s": 900, "mem_gb": 8},
        },
    },
    "C16": {
        "level": "model_checking",
        "claim": "TopicFilter::is_invalid equals a level-based MQTT 4.7/4.8.2 oracle for every string of up to N arbitrary Unicode scalars "
                 "(all character classes incl. NUL and multi-byte), with and without concrete $share-style prefixes; bounded by N.",
        "note": "trusted: Kani/CBMC/CaDiCaL and the 60-line oracle in harness/src/spec/topic.rs; strings longer than the bound are outside the claim",
        "functions": ["TopicFilter::is_invalid"],
        "bounds": {"quick": "all strings of 0..=4 Unicode scalars; '$share/' + 1..=5 scalars; near-miss prefixes + 3; 65536-byte guard",
                   "thorough": "all strings of 0..=6 scalars; '$share/' + 1..=7; '$share/g/' + 3..=5"},
        "outside": "strings of more than 6 scalars (13 after a concrete '$share/' prefix)",
        "tiers": {
            "quick": {"modules": ["p_c16"], "select": r"plain[0-4]$|share[1-5]$|near_|length_limit|share_g_3", "timeout_s": 400, "mem_gb": 8},
            "thorough": {"modules": ["p_c16"], "timeout_s": 3000, "mem_gb": 16, "jobs": 6},
        },
    },
}
