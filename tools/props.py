"""Per-property configuration: which scenario modules run in which tier, budgets,
and the statements that go into the evidence files."""

COMMON_ASSUMPTIONS = [
    "Kani 0.68 MIR->GOTO translation, CBMC 6.11 symbolic execution and CaDiCaL are sound; Kani models allocation as infallible",
    "decode paths are analysed on the sync twin regenerated from /repo on this run (async/await erased mechanically, "
    "tools/desync.py; the diff is in coverage.twin); every alarm is replayed against the unmodified crate before it is reported",
    "bounds are enforced by unwinding assertions: a too-small bound is reported as undecided, never as held",
]

import gens

GENERATORS = {"probe": gens.gen_probe, "c04_quick": gens.gen_c04("quick"), "c04_thorough": gens.gen_c04("thorough"),
              "c10_quick": gens.gen_c10("quick"), "c10_thorough": gens.gen_c10("thorough"),
              "c12_quick": gens.gen_c12("quick"), "c12_thorough": gens.gen_c12("thorough"),
              "c20_quick": gens.gen_c20("quick"), "c20_thorough": gens.gen_c20("thorough"),
              "c01_quick": gens.gen_c01("quick"), "c01_thorough": gens.gen_c01("thorough"),
              "c02_quick": gens.gen_c02("quick"), "c02_thorough": gens.gen_c02("thorough"),
              "c06_quick": gens.gen_c06("quick"), "c06_thorough": gens.gen_c06("thorough"),
              "c07_quick": gens.gen_c07("quick"), "c07_thorough": gens.gen_c07("thorough"),
              "c11_quick": gens.gen_c11("quick"), "c11_thorough": gens.gen_c11("thorough"),
              "c14_quick": gens.gen_c14("quick"), "c14_thorough": gens.gen_c14("thorough")}

# interim reasons while the framework is being built (kept current with every commit)
NOT_YET = {}


PROPS = {
    "PROBE": {"level": "model_checking", "claim": "", "note": "", "not_applicable": "internal cost probe",
              "tiers": {"quick": {"modules": ["g_probe"], "generators": ["probe"], "timeout_s": 300, "mem_gb": 12},
                        "thorough": {"modules": ["p_probe"], "timeout_s": 300, "mem_gb": 12}}},
    "C04": {
        "level": "model_checking",
        "claim": "For every enumerated frame shape of every v3.1/v3.1.1/v5.0 packet type (concrete lengths, presence bits, property-id sequences and "
                 "connect flags; every content byte, identifier, code and option symbolic) the solver decides that the strict decoder accepts exactly when "
                 "the spec-side constraints hold and that every returned field equals the value the specification assigns to those bytes.",
        "note": "strict decoder = composition new_with + build_empty_packet + block_decode + exact-consumption/eof mapping on the sync twin "
                "(equivalence of common/poll.rs with that composition for every PollHeader is C05's obligation); string validators replaced by class stubs "
                "(all-valid class here; invalid classes under C12/C20); spec layout/tables in tools/mqttgen.py",
        "functions": ["Header::new_with (v3, v5)", "PollHeader::{build_empty_packet, block_decode, remaining_len, is_eof_error}", "every packet body decode_async (twin)",
                      "decode_properties! expansions", "read_string/read_bytes/read_u8/u16/u32/decode_var_int"],
        "bounds": {"quick": "197 shapes: text/binary lengths 0..2, <= 3 topics/codes, every single allowed property per packet (user property only where usable), "
                            "selected connect-flag bytes, boundary subscription identifiers, shape-level malformations (unknown/disallowed/duplicate property, wrong property length)",
                   "thorough": "all 256 connect-flag bytes (v3.1.1 and v5), lengths up to 4, property pairs"},
        "outside": "contents longer than 4 bytes; user properties in PUBLISH/SUBSCRIBE/SUBACK/UNSUBSCRIBE/UNSUBACK (CBMC loses pointers read back from Vec buffers: spurious results, see DESIGN); "
                   "string fields in more than one invalid class at a time; shared-subscription filters inside packets (C16/C17 cover the validator)",
        "assumptions": ["pinned leniencies of DESIGN.md section 3.5 are part of the reference grammar"],
        "tiers": {
            "quick": {"modules": ["g_c04_v3", "g_c04_v5"], "generators": ["c04_quick"], "timeout_s": 600, "mem_gb": 8, "jobs": 14},
            "thorough": {"modules": ["g_c04_v3", "g_c04_v5"], "generators": ["c04_thorough"], "timeout_s": 1200, "mem_gb": 10, "jobs": 12},
        },
    },
    "C10": {
        "level": "model_checking",
        "claim": "For every enumerated canonical shape the packet value is built from symbolic field values inside the valid domain and the solver decides that "
                 "Packet::encode and the streaming body encoder emit byte-for-byte the wire image written down from the OASIS specifications "
                 "(type/flag nibbles, minimal remaining length, big-endian integers, length-prefixed strings, property ids and wire types, reason-code numbers).",
        "note": "the spec wire image (tools/mqttgen.py) plays the role of the independent decoder: bytes == layout(fields) is equivalent to, and stronger than, "
                "an independent decoder recovering the fields; constructors' validators replaced by class stubs (valid class)",
        "functions": ["Packet::encode (v3, v5)", "encode_packet", "write_var_int", "every Encodable::encode", "encode_properties! expansions", "VarBytes::as_ref"],
        "bounds": {"quick": "canonical shapes of the C04 catalogue (lengths 0..2, single properties, selected connect flags)", "thorough": "thorough C04 catalogue"},
        "outside": "as C04; values whose encoding the encoder cannot emit (non-canonical spellings) are C11's subject",
        "tiers": {
            "quick": {"modules": ["g_c10_v3", "g_c10_v5"], "generators": ["c10_quick"], "timeout_s": 600, "mem_gb": 8, "jobs": 14,
                      "heavy": {r"__encp$": (900, 20)}},
            "thorough": {"modules": ["g_c10_v3", "g_c10_v5"], "generators": ["c10_thorough"], "timeout_s": 1200, "mem_gb": 10, "jobs": 12},
        },
    },
    "C05": {
        "level": "model_checking",
        "claim": "The real common/poll.rs (GenericPollPacket::poll), instantiated with a harness PollHeader whose answers cover every behaviour class "
                 "(header refused / empty packet / body decoded / bytes left over / eof error / other error), is checked by inductive steps: from the "
                 "representation-invariant state of every stream position (a fresh future = dropped and re-created) one poll against every script of a family "
                 "(Pending first; 1 byte; as much as offered; two reads; three reads; end of stream here; transport error here / after one byte) either returns Pending "
                 "only if the transport did and leaves the invariant state of the new position, or returns exactly the result and byte count of one uninterrupted read, "
                 "never requesting bytes beyond the frame. Chaining steps covers every delivery schedule and any number of re-creations for the enumerated streams.",
        "note": "stream headers are concrete (minimal and non-minimal length spellings, 1..5 header bytes, remaining length 0..4 and 130), body bytes symbolic; positions and "
                "scripts are concrete per step because a symbolic schedule makes every stream index symbolic (measured: does not terminate). The real v3/v5 Header "
                "implementations are composed with this result in fe::strict (same generic source).",
        "functions": ["GenericPollPacket::poll (twin copy of common/poll.rs, only #[repr(u8)] added to the state enum)", "GenericPollPacketState::default"],
        "bounds": {"all": "17 streams x every position x 8 scripts; bodies up to 4 bytes (130 for the long-length prefix); header length 2..6"},
        "outside": "bodies longer than 4 bytes at full length; schedules are covered by induction over the invariant, which is part of the trusted argument; "
                   "the real Header types inside the poll loop (bytes read back from the MaybeUninit buffer are not constants for symbolic execution)",
        "tiers": {"quick": {"modules": ["p_c05"], "select": r"^(?!c05_steps_all_rem4$)", "timeout_s": 600, "mem_gb": 10, "jobs": 16}, "thorough": {"modules": ["p_c05"], "timeout_s": 1800, "mem_gb": 16}},
    },
    "C12": {
        "level": "model_checking",
        "claim": "For every text-bearing field role of both families the query in which exactly that validator call is in its invalid class shows the frame is "
                 "rejected (never a packet holding invalid UTF-8 / an invalid topic), and the all-valid queries show every returned string equals the validated bytes, "
                 "packet identifiers are non-zero and variable-byte-integer fields are below 2^28.",
        "note": "class stubs fix each validator verdict per query (invalid class: assume(!model(input)); Err); the validators themselves are C16-C18 and the UTF-8 lemma; "
                "a decoder path that skips a validator leaves the content unconstrained and fails the accepted-packet obligations",
        "functions": ["read_string", "TopicName::try_from / TopicFilter::try_from call sites in every body decoder", "decode_properties! string arms", "v5 payload format checks"],
        "bounds": {"quick": "25 text-bearing shapes, strings of 1-2 bytes, one invalid field at a time", "thorough": "+8 shapes, strings up to 4 bytes"},
        "outside": "two or more invalid fields at once; strings longer than 4 bytes; shared-subscription filters in packets",
        "tiers": {"quick": {"modules": ["g_c12", "p_lemma"], "generators": ["c12_quick"], "select": r"^v[35]_|^lemma_utf8_[1-4]$", "timeout_s": 600, "mem_gb": 8, "jobs": 14},
                  "thorough": {"modules": ["g_c12", "p_lemma"], "generators": ["c12_thorough"], "timeout_s": 1200, "mem_gb": 10, "jobs": 12}},
    },
    "C20": {
        "level": "model_checking",
        "claim": "For each catalogue malformation the single-violation obligation is decided: whenever exactly one spec-side constraint of a shape is violated "
                 "(symbolic scalar: zero pid, QoS 3, return/reason code outside the table, reserved flag/option bits, bad boolean property; shape-level: connect flags, "
                 "empty subscription, unknown/duplicated/disallowed property, wrong property length, body on a body-less packet; class-level: non-UTF-8 string, wildcard in topic "
                 "name, invalid filter, invalid response topic, invalid payload format) the strict decoder returns the documented variant carrying the offending value; "
                 "the real poll.rs rejects an over-long remaining length, a zero remaining length on a packet with a body and a refused control byte at every position and transport script (C05 steps, label C20).",
        "note": "strict decoder composition as in C04; agreement of the blocking/async front-ends with it is C06",
        "functions": ["as C04"],
        "bounds": {"all": "one shape per packet type for scalar malformations, every shape-level malformation of the C04 catalogue, invalid-class queries for 12 (quick) / all (thorough) text shapes"},
        "outside": "two simultaneous malformations (any error accepted); InvalidRemainingLength-vs-incomplete split is C06/C07's subject",
        "tiers": {"quick": {"modules": ["g_c20", "p_c05"], "generators": ["c20_quick"], "select": r"^v[35]_|^c05_steps_(overlong_varint|zero_rem|reject_hl2)$", "timeout_s": 600, "mem_gb": 8, "jobs": 14},
                  "thorough": {"modules": ["g_c20", "p_c05"], "generators": ["c20_thorough"], "select": r"^v[35]_|^c05_steps_(overlong_varint|zero_rem|reject_hl2)$", "timeout_s": 1200, "mem_gb": 10, "jobs": 12}},
    },
    "C01": {
        "level": "model_checking",
        "claim": "Round trip per canonical shape, split at the wire image (DESIGN R9): (i) the body encoder's bytes equal the spec wire image of the symbolic field values and "
                 "(ii) the strict decoder on that wire image returns exactly those field values with the exact total; (i) and (ii) together are decode(encode(p)) = p for the shape.",
        "note": "poll front-end via the C05 composition; blocking/async agreement is C06; packet-level header glue is C09/C10",
        "functions": ["Encodable::encode of every body", "every body decode_async (twin)", "strict decoder composition"],
        "bounds": {"quick": "about 90 canonical shapes (every packet type, every property once)", "thorough": "all canonical shapes of the C04 catalogue"},
        "outside": "as C04 and C10",
        "tiers": {"quick": {"modules": ["g_c01"], "generators": ["c01_quick"], "timeout_s": 600, "mem_gb": 8, "jobs": 14},
                  "thorough": {"modules": ["g_c01"], "generators": ["c01_thorough"], "timeout_s": 1200, "mem_gb": 10, "jobs": 12}},
    },
    "C02": {
        "level": "model_checking",
        "claim": "For every canonical shape: bytes written by the streaming body encoder = encode_len() = the specification's body size; for one shape per packet type "
                 "Packet::encode emits encode_len() bytes with a minimal remaining-length field equal to the bytes that follow. The debug assertion in encode_packet is an "
                 "obligation too (Kani analyses the dev profile); replay runs dev and release.",
        "note": "width boundaries of the remaining length (127/128 ... 268435455/268435456) are decided for total_len/var_int_len/write_var_int over their complete domains by C15",
        "functions": ["every Encodable::{encode, encode_len}", "Packet::{encode, encode_len}", "encode_packet", "total_len"],
        "bounds": {"quick": "canonical shapes of the C04 catalogue", "thorough": "thorough catalogue"},
        "outside": "field contents longer than 4 bytes (length arithmetic on them is linear; boundaries via C15)",
        "tiers": {"quick": {"modules": ["g_c02_v3", "g_c02_v5"], "generators": ["c02_quick"], "timeout_s": 600, "mem_gb": 8, "jobs": 14},
                  "thorough": {"modules": ["g_c02_v3", "g_c02_v5"], "generators": ["c02_thorough"], "timeout_s": 1200, "mem_gb": 10, "jobs": 12}},
    },
    "C06": {
        "level": "model_checking",
        "claim": "On frame ++ 2 symbolic tail bytes, per shape: the blocking decoder equals the async decoder with eof mapped to incomplete (same packet / same error); whenever the "
                 "strict decoder accepts, both return that packet; whenever it rejects with anything but a remaining-length mismatch, both return that error. "
                 "The fixed-header reader of the real poll.rs rejects an over-long remaining length, a zero length on a packet with a body and a refused control byte exactly as the "
                 "variable-byte-integer reference (= the blocking/async header reader decided in C15) does (C05 steps, shared label).",
        "note": "all three on the sync twin (async = decode_async on a never-pending slice reader); strict = C05 composition; dispatch tables are compared through the per-type shapes",
        "functions": ["Packet::decode (v3, v5)", "Packet::decode_async", "Header::decode_async", "decode_raw_header", "strict composition"],
        "bounds": {"quick": "about 45 shapes incl. malformed ones", "thorough": "all v3 shapes and v5 shapes up to 16 bytes"},
        "outside": "decode_async on readers that return Pending / short reads (await propagation + tokio ReadExact, not code of this crate)",
        "tiers": {"quick": {"modules": ["g_c06", "p_c05"], "generators": ["c06_quick"], "select": r"__agree(_ct)?$|^c05_steps_(overlong_varint|zero_rem|reject_hl2)$", "timeout_s": 600, "mem_gb": 10, "jobs": 14},
                  "thorough": {"modules": ["g_c06", "p_c05"], "generators": ["c06_thorough"], "select": r"__agree(_ct)?$|^c05_steps_(overlong_varint|zero_rem|reject_hl2)$", "timeout_s": 1800, "mem_gb": 12, "jobs": 10}},
    },
    "C07": {
        "level": "model_checking",
        "claim": "For valid encodings (all spec constraints assumed on symbolic content) of the selected shapes every strict prefix is Ok(None) for the blocking decoder and an eof error for "
                 "the async decoder, the complete encoding decodes; validators (UTF-8, topic name, topic filter) are reached only with completely read fields of the frame (asserting valid-class stubs: a check that runs on a partly filled buffer is a reported failure, not a pruned path); trailing bytes are ignored (C06/C08 scenarios run on frame ++ tail and require the same packet and exact consumption).",
        "note": "end of stream inside a frame for the poll decoder is decided by the C05 steps (script 'end of stream here' at every position)",
        "functions": ["Packet::decode", "Packet::decode_async", "Error::is_eof", "ErrorV5::is_eof"],
        "bounds": {"quick": "shapes up to 14 bytes, every cut position", "thorough": "shapes up to 20 bytes"},
        "outside": "longer encodings",
        "tiers": {"quick": {"modules": ["g_c07"], "generators": ["c07_quick"], "timeout_s": 900, "mem_gb": 10, "jobs": 14},
                  "thorough": {"modules": ["g_c07"], "generators": ["c07_thorough"], "timeout_s": 1800, "mem_gb": 12, "jobs": 10}},
    },
    "C13": {
        "level": "model_checking",
        "claim": "Protocol::new is decided against the three valid (name, level) pairs for every name of 0,1,3..7 bytes and every level (InvalidProtocol carrying name+level, InvalidString for "
                 "non-UTF-8 names); Protocol::decode_async on the wire form for every name of 4..8 bytes and every level; a symbolic (and, for identification alone, a concrete) v3.1 / v3.1.1 CONNECT given to the v5 blocking, strict and body decoders, and a v5 CONNECT given to the v3 ones, yield "
                 "UnexpectedProtocol(version found) after consuming exactly protocol name + level, and resuming with the matching family's decode_with_protocol equals the native decode.",
        "note": "sync twin; from_utf8 replaced by the byte-wise UTF-8 model (Protocol::new) / class stub (packets)",
        "functions": ["Protocol::new", "Protocol::decode_async", "v3::Connect::{decode_async, decode_with_protocol}", "v5::Connect::{decode_async, decode_with_protocol}"],
        "bounds": {"all": "names up to 7 bytes (2-byte names omitted: no valid name has that length and the code path is the same as for 1 and 3); one CONNECT shape per version (client id 1 byte, no will/credentials)"},
        "outside": "longer names; CONNECT shapes with will/credentials in the cross-family scenario (their decoding is C04)",
        "tiers": {"quick": {"modules": ["p_c13"], "timeout_s": 600, "mem_gb": 16}, "thorough": {"modules": ["p_c13"], "timeout_s": 1200, "mem_gb": 20}},
    },
    "C17": {
        "level": "model_checking",
        "claim": "For every ASCII filter text of the enumerated shapes (plain, '$share/'+3..5, near-miss prefixes) that the constructor accepts: text read-back, is_shared, shared_group_name, "
                 "shared_filter, shared_info equal the unique '$share/'+name+'/'+filter split (no slicing panic); Eq/Ord/PartialOrd/Hash of two filters (plain vs shared, shared vs shared) equal those of their texts.",
        "note": "real constructor and validator (no class stub); Hash compared through a recording Hasher",
        "functions": ["TopicFilter::try_from", "TopicFilter::{is_shared, shared_group_name, shared_filter, shared_info}", "Deref/Eq/Ord/PartialOrd/Hash for TopicFilter"],
        "bounds": {"all": "ASCII content, 3..5 symbolic bytes after the concrete prefix"},
        "outside": "multi-byte share names (the separator index arithmetic on them is covered at validator level by C16, which compares the byte index); longer filters",
        "tiers": {"quick": {"modules": ["p_c17"], "timeout_s": 900, "mem_gb": 10}, "thorough": {"modules": ["p_c17"], "timeout_s": 1800, "mem_gb": 16}},
    },
    "C18": {
        "level": "model_checking",
        "claim": "TopicName::is_invalid equals the MQTT rule for every string of up to 6 arbitrary Unicode scalars; through the constructor (ASCII shapes with concrete '$share/', '$SYS/' and "
                 "near-miss prefixes) accepted names read back unchanged and is_shared/is_sys match the prefixes; the 65536-byte guard is decided in C16's length_limit harness.",
        "note": "packet-level call sites (PUBLISH topic, will topic, response topic) are C12/C20 class queries",
        "functions": ["TopicName::is_invalid", "TopicName::try_from", "TopicName::{is_shared, is_sys}", "Deref for TopicName"],
        "bounds": {"quick": "N <= 4 scalars", "thorough": "N <= 6"},
        "outside": "longer strings",
        "tiers": {"quick": {"modules": ["p_c18", "p_c16"], "select": r"c18_plain[0-4]$|c18_ctor|c16_length_limit", "timeout_s": 600, "mem_gb": 8},
                  "thorough": {"modules": ["p_c18", "p_c16"], "select": r"c18_|c16_length_limit", "timeout_s": 1800, "mem_gb": 16}},
    },
    "C03": {
        "level": "model_checking",
        "claim": "Every byte string of length 0..2 through the blocking decoders and Header::decode of both families, and every 6-byte header prefix through Header::decode, with all of "
                 "Kani's checks (arithmetic overflow, out-of-bounds, invalid pointer, unwrap/expect/unreachable!/debug_assert reachability, unwinding assertions = termination) as obligations. "
                 "Longer inputs are covered per shape: the same checks are obligations in every C04/C06/C07/C12/C20 scenario and in the C05 steps (poll buffer discipline).",
        "note": "sync twin; the poll decoder's MaybeUninit buffer is covered structurally by the C05 invariant (every index below idx was written by the reader); -Z uninit-checks ICEs on this toolchain",
        "functions": ["Packet::decode (v3, v5)", "Header::decode (v3, v5)", "decode_raw_header", "decode_var_int"],
        "bounds": {"all": "arbitrary strings up to 2 bytes; headers of 6 bytes. From 3 bytes on the reader position after the remaining-length field is a merged (symbolic) value for symbolic execution "
                          "and every later length with it (symbolic-size allocations and loops): no verdict within 15 min / 12 GB even per packet type with concrete flags -- measured, see DESIGN.md 7"},
        "outside": "arbitrary strings of 3+ bytes other than the enumerated shapes; allocation failure (Kani models alloc as infallible); the real async front-end on pending readers",
        "tiers": {"quick": {"modules": ["p_c03"], "timeout_s": 1500, "mem_gb": 12},
                  "thorough": {"modules": ["p_c03"], "timeout_s": 1800, "mem_gb": 16}},
    },
    "C09": {
        "level": "model_checking",
        "claim": "The real encode_async coroutine with tokio's write_all, driven by a scripted AsyncWrite sink (1..k bytes per write, Pending before/between writes), emits exactly the bytes of "
                 "encode() for a v3 PUBLISH (symbolic pid/topic/payload/dup), the fixed-size v3 packets and a v5 PUBACK (with properties: all at once; medium form: two partial writes); encode() twice is identical; the v3 PUBLISH and v5 PUBACK body encoders streamed into io::Write sinks taking 1 and 2 bytes per call write exactly the packet bytes after the fixed header; VarBytes::{Fixed2,Fixed4,Dynamic}::as_ref "
                 "exposes exactly those bytes. Packet-level = header ++ body stream is asserted against the spec image by C10's packet-level scenarios.",
        "note": "scripts are concrete (positions must be), contents symbolic; one coroutine level is within reach of the solver",
        "functions": ["v3::Packet::encode_async", "v5::Packet::encode_async", "tokio::io::AsyncWriteExt::write_all", "Packet::encode", "VarBytes::as_ref"],
        "bounds": {"all": "3 packets families x 3-4 scripts, encodings up to 10 bytes"},
        "outside": "other packet types through encode_async (the function body is type-independent: encode() then write_all); symbolic sink schedules",
        "tiers": {"quick": {"modules": ["p_c09"], "timeout_s": 400, "mem_gb": 12}, "thorough": {"modules": ["p_c09"], "timeout_s": 1800, "mem_gb": 16}},
    },
    "C14": {
        "level": "model_checking",
        "claim": "A read error injected at every byte position of valid encodings (10 shapes of both families) makes the async decoder return an I/O error of that kind. Streaming encoders into a sink that fails (error kind / zero-length write) after `limit` bytes, for every limit: the error kind is reported, only a prefix of the correct encoding was "
                 "accepted (v3 PUBLISH, v3 CONNECT, v5 PUBACK, v5 PUBLISH bodies); encode_async under sink faults (in C09's module); the poll decoder under a transport error / end of stream at every "
                 "position (C05 step scripts); conversions Error -> std::io::Error preserve the I/O kind and map protocol errors to InvalidData; is_eof <=> UnexpectedEof.",
        "note": "From<io::Error> for Error is stubbed to keep the kind and drop the message (core::fmt is out of reach); the async decoder under read faults runs on the sync twin with a reader "
                "that fails at `limit` (natively: tokio AsyncRead delivering one byte per poll)",
        "functions": ["Encodable::encode (4 bodies)", "Packet::encode_async", "GenericPollPacket::poll error paths", "From<Error> for io::Error", "Error::is_eof", "ErrorV5::is_eof"],
        "bounds": {"quick": "every fault position of a v3 PUBLISH (7 bytes) and a v5 PUBACK with properties (8 bytes) body; read faults at every position of 10 encodings; 6 error kinds for conversions",
                   "thorough": "additionally every fault position of a v3 CONNECT (19 bytes) and a v5 PUBLISH with properties (9 bytes) body"},
        "outside": "the three manual map_err(|e| IoError(e.kind(), e.to_string())) sites of the v5 async decoder (to_string is core::fmt); Error::from(io::Error) itself",
        "tiers": {"quick": {"modules": ["p_c14", "p_c09", "p_c05", "g_c14"], "generators": ["c14_quick"], "select": r"^c14_(to_io_error|stream_v3_publish|stream_v5_puback)|__rdfault$|c09_v3_publish_(fault|zero)|c05_steps_(all_rem2|all_rem2_hl3|empty_hl3)$", "timeout_s": 900, "mem_gb": 12},
                  "thorough": {"modules": ["p_c14", "p_c09", "p_c05", "g_c14"], "generators": ["c14_thorough"], "select": r"^c14_|__rdfault$|c09_v3_publish_(fault|zero)|c05_steps_", "timeout_s": 1800, "mem_gb": 16}},
    },
    "C11": {
        "level": "model_checking",
        "claim": "v3 (direct): for every enumerated v3 shape, whenever the strict decoder accepts, the streaming encoder of the returned value succeeds, writes exactly encode_len() bytes (so "
                 "Packet::encode cannot trip its debug assertion or emit a wrong remaining length), at most as many as were consumed, and for canonical shapes exactly the frame body. "
                 "v5 (split at the value): per enumerated shape (a) the decode query decides that every field of the accepted value equals the specification's value of the frame cells "
                 "(incl. the non-canonical spellings: PUBACK-family medium/long forms with reason 0x00 or without properties, DISCONNECT code/long, AUTH long), and (b) the encode query of the "
                 "same shape decides that a value with those fields - all of them, symbolic - is written without error as exactly those cells with encode_len() = bytes written; "
                 "(a) and (b) share the cells, so re-encoding an accepted canonical frame yields the frame itself, which (a) decodes to the same value.",
        "note": "the direct v5 query (reading a property-bearing value back out of the decoder's result into the encoder) does not decide: 1.1-1.4 M steps and solver out-of-memory for every v5 "
                "shape, measured; for non-canonical v5 spellings (b) is that of the canonical sibling shape, the pairing is by construction of the catalogue and not itself a solver query; "
                "the blocking/async front-ends return the same value as the strict one by C06",
        "functions": ["every body decode_async (twin)", "every Encodable::{encode, encode_len}"],
        "bounds": {"quick": "13 v3 shapes direct; v5: every shape of the ack/suback/unsuback/disconnect/auth/subscribe/unsubscribe/connack types and one shape of each other type", "thorough": "all accepted shapes of the C04 catalogue"},
        "outside": "non-minimal property-length / remaining-length varints (lenient framing of the blocking decoder); v5 values outside the catalogue's shapes; direct v3 queries for two-filter SUBSCRIBE and for CONNECT with will + user name + password (no verdict, measured) - those shapes are covered by C04 (decode) and C10 (encode) only; as C04",
        "tiers": {"quick": {"modules": ["g_c11"], "generators": ["c11_quick"], "timeout_s": 400, "mem_gb": 8, "jobs": 12},
                  "thorough": {"modules": ["g_c11"], "generators": ["c11_thorough"], "timeout_s": 1200, "mem_gb": 10, "jobs": 12}},
    },
    "C08": {
        "level": "model_checking",
        "claim": "Framing is decided as an induction step over the packet count: (poll) for every stream position and transport script the real poll.rs on a generic header reports a total equal to the "
                 "bytes it consumed and never requests a byte beyond the frame, with one byte of the next packet present (incl. 3-6 byte headers and body-less packets); (blocking/async) on frame ++ 2 "
                 "symbolic bytes of the next packet, whenever the frame satisfies every constraint of the specification for its shape, the blocking and the async decoder return a packet with the frame's field values and the async decoder has consumed exactly the frame (stated on the spec constraints, not on the strict decoder's verdict); a fresh default state on an empty remainder reports eof / Ok(None).",
        "note": "the step is decided per shape; 'any finite sequence' follows by induction on the number of packets (each step leaves the stream exactly at the next frame and the state is the default state)",
        "functions": ["GenericPollPacket::poll", "Packet::decode_async", "Packet::decode", "GenericPollPacketState::default"],
        "bounds": {"all": "C05 streams (bodies up to 4 bytes, headers up to 6 bytes) and the C06 shape list; sequences by induction, not by enumeration"},
        "outside": "real packets with 2-4 byte remaining-length fields (bodies >= 128 bytes) through the blocking/async decoders; the poll side covers wide headers with the generic header only",
        "tiers": {"quick": {"modules": ["p_c05", "g_c06"], "generators": ["c06_quick"], "select": r"^c08_|^c05_steps_(all_rem2|all_rem2_hl3|all_rem2_hl5|empty_hl2|empty_hl3|empty_hl5)$|_(publish_q1_t1_p1|publish_q1_t2_p2|connack|suback_2|pingreq|puback|connect_v311_f02_c1|disconnect_empty|auth_empty|subscribe_1|puback_short|publish_q0_t1_p1_x03l1|unsubscribe_1_nonmin|unsubscribe_2_x26l1_1_nonmin)__agree(_ct)?$",
                            "timeout_s": 900, "mem_gb": 10, "jobs": 14},
                  "thorough": {"modules": ["p_c05", "g_c06"], "generators": ["c06_thorough"], "select": r"^c08_|^c05_steps_|__agree(_ct)?$", "timeout_s": 1800, "mem_gb": 12, "jobs": 10}},
    },
    "C19": {
        "level": "model_checking",
        "claim": "Every (Pid, u16) pair is symbolic: the solver shows + / - / += / -= / try_from agree with the cycle 1..=65535 closed form, "
                 "never yield 0, and that the closed form is single-stepping. No bound other than the types, so this is the complete domain.",
        "note": "trusted: Kani/CBMC/CaDiCaL; common/types.rs is byte-identical in the twin for this code (see coverage.twin)",
        "functions": ["<Pid as Add<u16>>::add", "<Pid as Sub<u16>>::sub", "AddAssign/SubAssign", "Pid::try_from", "Pid::value", "Pid::default"],
        "bounds": {"all": "none: all 65535 x 65536 (Pid, amount) pairs are symbolic; loop-free"},
        "outside": "nothing (complete domain)",
        "assumptions": ["'stepping u times' is discharged by a closed form plus an inductive-step harness for the closed form"],
        "tiers": {
            "quick": {"modules": ["p_c19"], "timeout_s": 300, "mem_gb": 8},
            "thorough": {"modules": ["p_c19"], "timeout_s": 600, "mem_gb": 8},
        },
    },
    "C15": {
        "level": "model_checking",
        "claim": "var_int_len/total_len/header_len/remaining_len over the whole usize domain, the variable-byte-integer writer for every v < 2^28 "
                 "(minimal form, reported size, no overrun) and the reader on every byte string of length <= 6 (value, bytes consumed, "
                 "eof vs InvalidVarByteInt) are decided by the solver against an independent reference; the header state machine of the real poll.rs agrees with that reference on 3-byte, 5-byte and over-long headers at every position and transport script (C05 steps, shared label).",
        "note": "trusted: Kani/CBMC/CaDiCaL; writer reached through SubscribeProperties::encode, reader through decode_raw_header on the sync twin; "
                "io::Error->Error conversion stubbed (message text dropped)",
        "functions": ["var_int_len", "total_len", "header_len", "remaining_len", "write_var_int (via SubscribeProperties::encode)",
                      "decode_var_int (via decode_raw_header, twin)", "VarByteInt::try_from"],
        "bounds": {"all": "helpers: whole usize domain; writer: all v < 2^28; reader: every byte string of length 0..=6 (all continuation patterns of five length bytes)"},
        "outside": "nothing for the helpers/writer/reader; the poll decoder's header state machine on the concrete header spellings of the selected C05 step streams (1-4 length bytes, over-long fifth byte)",
        "tiers": {
            "quick": {"modules": ["p_c15", "p_c05"], "select": r"^c15_|^c05_steps_(overlong_varint|all_rem2_hl5|rem130_hl3_prefix)$", "timeout_s": 600, "mem_gb": 10},
            "thorough": {"modules": ["p_c15", "p_c05"], "select": r"^c15_|^c05_steps_", "timeout_s": 1800, "mem_gb": 16},
        },
    },
    "C16": {
        "level": "model_checking",
        "claim": "TopicFilter::is_invalid equals a level-based MQTT 4.7/4.8.2 oracle for every string of up to N arbitrary Unicode scalars "
                 "(all character classes incl. NUL and multi-byte), with and without concrete $share-style prefixes; bounded by N. A SUBSCRIBE/UNSUBSCRIBE frame (v3, v5) carrying an empty filter, alone or after a valid one, is rejected by the strict, blocking and async decoders; the 65,535-byte limit is decided on 65,536-byte strings of one- and two-byte characters.",
        "note": "trusted: Kani/CBMC/CaDiCaL and the 60-line oracle in harness/src/spec/topic.rs; strings longer than the bound are outside the claim",
        "functions": ["TopicFilter::is_invalid"],
        "bounds": {"quick": "all strings of 0..=4 Unicode scalars; '$share/' + 1..=5 scalars; near-miss prefixes + 3; 65536-byte guard",
                   "thorough": "all strings of 0..=6 scalars; '$share/' + 1..=7; '$share/g/' + 3..=5"},
        "outside": "strings of more than 6 scalars (13 after a concrete '$share/' prefix)",
        "tiers": {
            "quick": {"modules": ["p_c16", "g_c06"], "generators": ["c06_quick"], "select": r"plain[0-4]$|share[1-5]$|near_|length_limit|share_g_3|_(subscribe|unsubscribe)_(0|1_0)__agree$", "timeout_s": 400, "mem_gb": 8},
            "thorough": {"modules": ["p_c16", "g_c06"], "generators": ["c06_quick"], "select": r"^c16_|_(subscribe|unsubscribe)_(0|1_0)__agree$", "timeout_s": 3000, "mem_gb": 16, "jobs": 6},
        },
    },
}
