"""Shape lists -> generated scenario modules (g_*.rs). Each generator is called by the
driver with the harness crate's src directory."""
import mqttgen as G


def gen_probe(srcdir):
    m = G.Module("g_probe", "cost probes")
    import os
    if os.environ.get("PROBE_SET") == "user":
        shapes = [G.v5_publish(0, 1, 0, [(0x26, (1, 1))]), G.v5_publish(0, 1, 1, [(0x26, (1, 2))]), G.v5_codes("Suback", 1, [(0x26, (1, 1))]),
                  G.v5_subscribe((1,), [(0x26, (1, 1))]), G.v5_unsubscribe((1,), [(0x26, (1, 2))]), G.v5_codes("Unsuback", 1, [(0x26, (2, 1))]),
                  G.v5_connect(0x04, 0, (), 0, 0, [(0x26, (1, 2))]), G.v5_connect(0x06, 1, (), 1, 1, [(0x26, (1, 2))])]
        for sh in shapes:
            fn, code, w, unwind, meta = G.emit_dec(sh)
            m.add(fn, code, w, unwind, meta=meta)
            if sh.typ == "Publish":
                m.add(fn + "_fe", code.replace(fn, fn + "_fe"), w, unwind, stubs=G.STUBS_DECODE + [G.STUB_FROM_ELEM], meta=meta)
        m.write(srcdir, chunk=1000)
        return m
    if os.environ.get("PROBE_SET") == "connect":
        shapes = [G.v3_connect("V311", 0x02), G.v3_connect("V311", 0xC6), G.v3_connect("V310", 0x2E), G.v3_connect("V311", 0x03),
                  G.v5_connect(0x02), G.v5_connect(0xC6, 1, [(0x11, None)], 1, 1, [(0x18, None)]),
                  G.v5_publish(0, 1, 0, [(0x26, (1, 1))]), G.v5_subscribe((1,), [(0x0B, 1)]), G.v5_publish(1, 1, 1, [(0x01, 1), (0x26, (1, 1))]),
                  G.v5_connack([(0x21, None), (0x1F, 1)])]
        for sh in shapes:
            fn, code, w, unwind, meta = G.emit_dec(sh)
            m.add(fn, code, w, unwind, meta=meta)
        m.write(srcdir, chunk=1000)
        return m
    shapes = [
        G.v3_publish(1, 2, 2),
        G.v3_connect("V311", 0xC6),
        G.v3_subscribe((2, 1)),
        G.v3_suback(2),
        G.v3_pidonly("Puback"),
        G.v3_connack(),
        G.v5_connack([(0x21, None), (0x1F, 1)]),
        G.v5_publish(1, 1, 1, [(0x01, 1), (0x26, (1, 1))]),
        G.v5_ack("Puback", "long", [(0x1F, 1)]),
        G.v5_subscribe((1,), [(0x0B, 1)]),
        G.v5_connect(0x86, 1, [(0x11, None)], 1, 1, [(0x18, None)]),
    ]
    for sh in shapes:
        fn, code, w, unwind, meta = G.emit_dec(sh)
        m.add(fn, code, w, unwind, meta=meta)
    fn, code, w, unwind, meta = G.emit_dec(shapes[0], bad=("utf8", 0))
    m.add(fn, code, w, unwind, meta=meta)
    fn, code, w, unwind, meta = G.emit_dec(shapes[2], bad=("filter", 1))
    m.add(fn, code, w, unwind, meta=meta)
    m.write(srcdir, chunk=1000)
    return m


import shapes as SH


def _dec_module(name, doc, shapes_list, prop):
    m = G.Module(name, doc)
    for sh in shapes_list:
        fn, code, w, unwind, meta = G.emit_dec(sh, prop=prop)
        m.add(fn, code, w, unwind, meta=meta)
    return m


def gen_c04(tier):
    def g(srcdir):
        _dec_module("g_c04_v3", "C04: strict decoder acceptance = MQTT 3.1/3.1.1 grammar, per shape", SH.v3_shapes(tier), "C04").write(srcdir)
        _dec_module("g_c04_v5", "C04: strict decoder acceptance = MQTT 5.0 grammar, per shape", SH.v5_shapes(tier), "C04").write(srcdir)
    return g


def encodable(shapes_list):
    return [sh for sh in shapes_list if sh.ctor is not None and not sh.malformed_by_shape and sh.canonical]


def _enc_module(name, doc, shapes_list, prop, **kw):
    m = G.Module(name, doc)
    seen_types = set()
    for sh in encodable(shapes_list):
        kw2 = dict(kw)
        if sh.b.order_free:
            # MQTT does not prescribe the order of different properties: compare lengths only
            if not kw2.get("want_len", True):
                continue
            kw2["want_bytes"] = False
        fn, code, w, unwind, meta = G.emit_enc(sh, prop=prop, level="body", **kw2)
        m.add(fn, code, w, unwind, stubs=G.STUBS_ENCODE, meta=meta)
        # packet level (fixed header + glue): the first (smallest) shape of each packet type
        if G.body_ctor(sh) is not None and (sh.fam, sh.typ) not in seen_types and sh.total_len <= 24 and (sh.fam, sh.typ) not in (("v5", "Connect"), ("v3", "Connect"), ("v5", "Publish"), ("v5", "Connack")):
            seen_types.add((sh.fam, sh.typ))
            fn, code, w, unwind, meta = G.emit_enc(sh, prop=prop, level="packet", **kw)
            m.add(fn, code, w, unwind, stubs=G.STUBS_ENCODE, meta=meta)
    return m


def gen_c10(tier):
    def g(srcdir):
        _enc_module("g_c10_v3", "C10: encoder output = spec wire image (v3)", SH.v3_shapes(tier), "C10", want_len=False).write(srcdir)
        _enc_module("g_c10_v5", "C10: encoder output = spec wire image (v5)", SH.v5_shapes(tier), "C10", want_len=False).write(srcdir)
    return g


# ---------------------------------------------------------------------------------------------
# selections shared by several properties
# ---------------------------------------------------------------------------------------------

def one_per_type(shapes_list, pred=lambda sh: True):
    seen = set()
    out = []
    for sh in shapes_list:
        k = (sh.fam, sh.typ)
        if k not in seen and pred(sh):
            seen.add(k)
            out.append(sh)
    return out


def bad_specs(tier):
    """(shape, kind, index): one query per text-bearing field role in which exactly that field is in
    the invalid class of its validator.  The field is given length 3 (the stubs' marker), every other
    field validated by the same function another length."""
    S = []

    def add(sh, kind, idx):
        assert G.bad_ok(sh, (kind, idx)), (sh.name, kind, idx, sh.b.utf8, sh.b.rlen)
        S.append((sh, kind, idx))
    # v3 CONNECT: client id, will topic (utf8 + name), user name
    add(G.v3_connect("V311", 0xC6, cid_len=3), "utf8", 0)
    add(G.v3_connect("V311", 0xC6, wt_len=3), "utf8", 1)
    add(G.v3_connect("V311", 0xC6, wt_len=3), "name", 0)
    add(G.v3_connect("V310", 0xC6, user_len=3), "utf8", 2)
    # v3 PUBLISH topic; SUBSCRIBE / UNSUBSCRIBE filters (first and second)
    add(G.v3_publish(1, 3, 1), "utf8", 0)
    add(G.v3_publish(1, 3, 1), "name", 0)
    add(G.v3_subscribe((3, 1)), "utf8", 0)
    add(G.v3_subscribe((1, 3)), "filter", 1)
    add(G.v3_subscribe((3, 1)), "filter", 0)
    add(G.v3_unsubscribe((1, 3)), "utf8", 1)
    add(G.v3_unsubscribe((3, 1)), "filter", 0)
    # v5 CONNECT: client id, auth method, will topic, will content type, will response topic, will payload, user name
    add(G.v5_connect(0xC6, 3, [(0x15, 1)], 1, 1, [(0x03, 1), (0x08, 1)]), "utf8", 1)
    add(G.v5_connect(0xC6, 1, [(0x15, 3)], 1, 1, [(0x03, 1), (0x08, 1)]), "utf8", 0)
    add(G.v5_connect(0xC6, 1, [(0x15, 1)], 1, 1, [(0x03, 3), (0x08, 1)]), "utf8", 2)
    add(G.v5_connect(0xC6, 1, [(0x15, 1)], 1, 1, [(0x03, 1), (0x08, 3)]), "utf8", 3)
    add(G.v5_connect(0xC6, 1, [(0x15, 1)], 1, 1, [(0x03, 1), (0x08, 3)]), "name", 0)
    add(G.v5_connect(0xC6, 1, [(0x15, 1)], 3, 1, [(0x03, 1), (0x08, 1)]), "utf8", 4)
    add(G.v5_connect(0xC6, 1, [(0x15, 1)], 3, 1, [(0x03, 1), (0x08, 1)]), "name", 1)
    add(G.v5_connect(0x86, 1, (), 1, 3, [(0x01, 1)], user_len=1), "utf8", 2)
    add(G.v5_connect(0xC6, 1, (), 1, 1, (), user_len=3), "utf8", 2)
    # v5 CONNACK string properties
    for pid in (0x12, 0x1A, 0x1C, 0x1F, 0x15):
        add(G.v5_connack([(pid, 3)]), "utf8", 0)
    add(G.v5_connack([(0x26, (3, 1))]), "utf8", 0)
    add(G.v5_connack([(0x26, (1, 3))]), "utf8", 1)
    # v5 PUBLISH: topic, content type, response topic, payload with format indicator
    add(G.v5_publish(1, 3, 1), "utf8", 0)
    add(G.v5_publish(1, 3, 1), "name", 0)
    add(G.v5_publish(0, 1, 1, [(0x03, 3)]), "utf8", 1)
    add(G.v5_publish(0, 1, 1, [(0x08, 3)]), "utf8", 1)
    add(G.v5_publish(0, 1, 1, [(0x08, 3)]), "name", 1)
    add(G.v5_publish(0, 1, 3, [(0x01, 1)]), "utf8", 1)
    # acks, subscribe family, disconnect, auth
    add(G.v5_ack("Puback", "long", [(0x1F, 3)], None), "utf8", 0)
    add(G.v5_ack("Pubrec", "long", [(0x26, (3, 1))], None), "utf8", 0)
    add(G.v5_ack("Pubrel", "long", [(0x1F, 3)], None), "utf8", 0)
    add(G.v5_ack("Pubcomp", "long", [(0x26, (1, 3))], None), "utf8", 1)
    add(G.v5_subscribe((3,)), "utf8", 0)
    add(G.v5_subscribe((3,)), "filter", 0)
    add(G.v5_subscribe((1, 3)), "filter", 1)
    add(G.v5_unsubscribe((3, 1)), "filter", 0)
    add(G.v5_unsubscribe((1, 3)), "utf8", 1)
    add(G.v5_codes("Suback", 1, [(0x1F, 3)]), "utf8", 0)
    add(G.v5_codes("Unsuback", 1, [(0x1F, 3)]), "utf8", 0)
    add(G.v5_disconnect("long", [(0x1F, 3)]), "utf8", 0)
    add(G.v5_disconnect("long", [(0x1C, 3)]), "utf8", 0)
    add(G.v5_auth("long", [(0x15, 3)]), "utf8", 0)
    add(G.v5_auth("long", [(0x1F, 3)]), "utf8", 0)
    return S


def bad_class_scenarios(m, prop, tier, limit=None):
    specs = bad_specs(tier)
    if limit:
        specs = specs[::max(1, len(specs) // limit)]
    for sh, kind, idx in specs:
        fn, code, w, unwind, meta = G.emit_dec(sh, prop=prop, bad=(kind, idx))
        m.add(fn, code, w, unwind, stubs=G.stubs_for((kind, idx)), meta=meta)


def string_shapes(tier):
    """text-bearing shapes for the all-valid obligations (returned strings = validated bytes)"""
    seen = set()
    out = []
    for sh, _, _ in bad_specs(tier):
        if (sh.fam, sh.name) not in seen:
            seen.add((sh.fam, sh.name))
            out.append(sh)
    return out


def gen_c12(tier):
    def g(srcdir):
        m = G.Module("g_c12", "C12: every decoded packet satisfies the invariants of its types (invalid-class queries per text field + accepted-packet obligations)")
        ss = string_shapes(tier)
        bad_class_scenarios(m, "C12", tier)
        # the all-valid queries of the same shapes carry the accepted-packet obligations
        for sh in ss:
            fn, code, w, unwind, meta = G.emit_dec(sh, prop="C12")
            m.add(fn, code, w, unwind, meta=meta)
        # identifiers / variable byte integers
        for sh in [G.v3_pidonly("Puback"), G.v3_suback(1), G.v5_ack("Pubrel", "short"), G.v5_codes("Unsuback", 1),
                   G.v5_subscribe((1,), [(0x0B, 268435455)]), G.v5_publish(0, 1, 1, [(0x0B, 16384)])]:
            fn, code, w, unwind, meta = G.emit_dec(sh, prop="C12")
            m.add(fn, code, w, unwind, meta=meta)
        m.write(srcdir)
    return g


def gen_c20(tier):
    def g(srcdir):
        m = G.Module("g_c20", "C20: each catalogue malformation yields its documented error (single-violation obligations)")
        v3 = SH.v3_shapes("quick")
        v5 = SH.v5_shapes("quick")
        # scalar malformations: one shape per packet type (pid 0, qos 3, codes, flags, options, boolean properties)
        chosen = one_per_type(v3, lambda sh: not sh.malformed_by_shape and len(sh.b.cons) > 0) + \
            one_per_type(v5, lambda sh: not sh.malformed_by_shape and len(sh.b.cons) > 0)
        names = {sh.name for sh in chosen}
        # shape-level malformations (connect flags, empty subscription lists, unknown/disallowed/duplicated
        # properties, wrong property length, body on a body-less packet)
        chosen += [sh for sh in v3 + v5 if sh.malformed_by_shape]
        # byte-valued properties and maximum QoS
        chosen += [sh for sh in v5 if sh.name in ("connack_x24", "connack_x25", "connack_x28", "connect_f02_c1_x17", "connect_f02_c1_x19",
                                                  "publish_q0_t1_p0_x01", "subscribe_2_1", "suback_2", "unsuback_2", "disconnect_code", "auth_long")]
        seen = set()
        for sh in chosen:
            if (sh.fam, sh.name) in seen:
                continue
            seen.add((sh.fam, sh.name))
            fn, code, w, unwind, meta = G.emit_dec(sh, prop="C20")
            m.add(fn, code, w, unwind, meta=meta)
        bad_class_scenarios(m, "C20", tier, None if tier == "thorough" else 18)
        m.write(srcdir)
    return g


def gen_c01(tier):
    def g(srcdir):
        v3 = encodable(SH.v3_shapes("quick"))
        v5 = encodable(SH.v5_shapes("quick"))
        if tier == "quick":
            # every packet type, every property once, the reason-code / flag layouts
            pick = v3[::2] + v5[::3] + one_per_type(v3) + one_per_type(v5)
        else:
            pick = v3 + v5
        m = G.Module("g_c01", "C01: encode then decode is the identity, per canonical shape: (i) encoder bytes = spec wire image, (ii) decoder on that wire image = the fields")
        seen = set()
        for sh in pick:
            if (sh.fam, sh.name) in seen:
                continue
            seen.add((sh.fam, sh.name))
            fn, code, w, unwind, meta = G.emit_enc(sh, prop="C01", level="body", want_bytes=not sh.b.order_free)
            m.add(fn, code, w, unwind, stubs=G.STUBS_ENCODE, meta=meta)
            fn, code, w, unwind, meta = G.emit_dec(sh, prop="C01")
            m.add(fn, code, w, unwind, meta=meta)
        m.write(srcdir)
    return g


def gen_c02(tier):
    def g(srcdir):
        _enc_module("g_c02_v3", "C02: declared lengths = bytes written (v3)", SH.v3_shapes(tier), "C02", want_bytes=False).write(srcdir)
        _enc_module("g_c02_v5", "C02: declared lengths = bytes written (v5)", SH.v5_shapes(tier), "C02", want_bytes=False).write(srcdir)
    return g


def agree_shapes(tier):
    v3 = SH.v3_shapes("quick")
    v5 = SH.v5_shapes("quick")
    pick = one_per_type(v3) + one_per_type(v5)
    names = ["connect_v311_fc6_c1_w1_1_u1_p1", "connect_v311_f01_c1", "publish_q1_t1_p1", "publish_q2_t2_p2", "subscribe_2_1", "subscribe_none", "suback_2",
             "pingreq_extra2", "connack_x21", "connack_x23", "connack_xraw00", "connack_x13_pdm1", "publish_q1_t2_p2", "publish_q0_t1_p1_x03l1", "puback_long_x1fl1",
             "puback_medium", "pubrel_long", "disconnect_code", "disconnect_long_x11", "auth_long_x15l1", "subscribe_1_x0bv128", "suback_2", "unsuback_1",
             "connect_fc6_c1_x11_15l1_w1_1_x18_08l1_u1_p1", "connect_f01_c1", "pingreq_extra1", "auth_long", "publish_q0_t1_p1_x08l1",
             "connect_f06_c1_w1_1_x08l1"]
    pick += [sh for sh in v3 + v5 if sh.name in names]
    # empty topic filters (C16: same decision through the packets) and a non-minimal property length in
    # UNSUBSCRIBE (the only decoder that does its own length bookkeeping from the bytes consumed)
    pick += [sh for sh in v3 + v5 if sh.b.empty_filter]
    pick += [G.v5_unsubscribe((1,), (), nonmin=True), G.v5_unsubscribe((2,), [(0x26, (1, 1))], nonmin=True)]
    if tier == "thorough":
        pick = v3 + [sh for sh in v5 if sh.total_len <= 16]
    # AUTH with a reason code but no property length: the lenient front-ends read the property length from
    # the (symbolic) tail, i.e. a symbolic-size property loop -- no verdict (out of memory at 10 GB)
    pick = [sh for sh in pick if not (sh.fam == "v5" and sh.name == "auth_code")]
    # CONNACK with a boolean property whose value byte is symbolic, on frame ++ tail through three front-ends:
    # out of memory at 12 GB (measured: 0x25, 0x28, 0x2a; 0x24 decides with 1.4 M steps); C04/C20 cover the value check
    import re as _re
    pick = [sh for sh in pick if not (sh.fam == "v5" and _re.match(r"connack_x(25|28|29|2a)$", sh.name))]
    seen = set()
    out = []
    for sh in pick:
        if (sh.fam, sh.name) not in seen:
            seen.add((sh.fam, sh.name))
            out.append(sh)
    return out


def gen_c06(tier):
    def g(srcdir):
        m = G.Module("g_c06", "C06/C08: blocking, async and strict decoders agree on frame ++ tail")
        for sh in agree_shapes(tier):
            fn, code, w, unwind, meta = G.emit_agree(sh)
            m.add(fn, code, w, unwind, meta=meta)
            if sh.b.nonminimal:
                # the same with the next packet's bytes concrete (PINGREQ): a decoder whose length bookkeeping is
                # off reads into the tail, which with a symbolic tail is a symbolic-size read (no verdict)
                fn, code, w, unwind, meta = G.emit_agree(sh, tail_bytes=[0xC0, 0x00])
                meta["mode"] = "front-end agreement, concrete tail c0 00"
                m.add(fn, code, w, unwind, meta=meta)
        m.write(srcdir, chunk=8)
    return g


def gen_c07(tier):
    def g(srcdir):
        m = G.Module("g_c07", "C07: every strict prefix of a valid encoding is incomplete; C08 tail handling via g_c06")
        lim = (lambda sh: 10 if sh.fam == "v5" else 14) if tier == "quick" else (lambda sh: 14 if sh.fam == "v5" else 20)
        shapes_list = [sh for sh in agree_shapes(tier) if not sh.malformed_by_shape and sh.total_len <= lim(sh)]
        # a property whose decoder re-maps errors (Response Topic): a cut inside it must still be 'incomplete'
        shapes_list += [sh for sh in SH.v5_shapes("quick") if sh.name == "publish_q0_t1_p1_x08l1" and sh.name not in [x.name for x in shapes_list]]
        # Payload Format Indicator = 1 with a two-byte payload: a cut inside a multi-byte character must be
        # 'incomplete', not InvalidPayloadFormat (a UTF-8 check that runs before the payload is completely read)
        shapes_list.append(G.v5_publish(0, 1, 2, [(0x01, 1)]))
        for sh in shapes_list:
            fn, code, w, unwind, meta = G.emit_prefix(sh)
            # asserting valid-class stubs: a validator reached with bytes that are not a complete field is reported
            m.add(fn, code, w, unwind, stubs=G.STUBS_PREFIX, meta=meta)
        m.write(srcdir, chunk=6)
    return g


C11_V3_QUICK = ["publish_q1_t1_p1", "publish_q0_t0_p0", "publish_q2_t3_p1_dup_ret", "suback_1", "suback_3", "connect_v311_f02_c1", "connect_v311_f0e_c1_w1_1",
                "connect_v311_fc2_c1_u1_p1", "unsubscribe_2", "unsubscribe_1_1", "subscribe_1", "connect_v310_f02_c1"]


def gen_c11(tier):
    """v3: the value the strict decoder returned is fed to its streaming encoder (direct).  v5: reading a
    property-bearing value back out of the decoder's result does not decide (1.1-1.4 M steps, solver out of
    memory, measured for every v5 shape), so the obligation is split at the value: (a) the decode query of a
    shape shows every returned field equals the specification's value of the frame cells, (b) the encode query
    of the same shape shows a value with those fields is written as exactly those cells; for accepted
    non-canonical spellings (a) alone plus (b) of the canonical sibling."""
    def g(srcdir):
        m = G.Module("g_c11", "C11: accepted input re-encodes to at most the consumed bytes, canonical frames to themselves")
        v3 = SH.v3_shapes("quick")
        v5 = SH.v5_shapes("quick")
        ok3 = [sh for sh in v3 if not sh.malformed_by_shape and "(p)" in sh.variant
               and sh.typ not in ("Puback", "Pubrec", "Pubrel", "Pubcomp", "Unsuback", "Connack")]
        # two-filter SUBSCRIBE read back out of the result: 1.09 M steps, solver out of memory at 8 GB (measured)
        ok3 = [sh for sh in ok3 if not (sh.typ == "Subscribe" and sh.name.count("_") >= 2)]
        # CONNECT with will + user name + password read back out of the result: solver ERROR / no verdict (measured)
        ok3 = [sh for sh in ok3 if not (sh.typ == "Connect" and sh.total_len >= 27)]
        if tier == "quick":
            ok3 = [sh for sh in ok3 if sh.name in C11_V3_QUICK]
        for sh in ok3:
            fn, code, w, unwind, meta = G.emit_reenc(sh)
            m.add(fn, code, w, unwind, meta=meta)
        small = ("Puback", "Pubrec", "Pubrel", "Pubcomp", "Suback", "Unsuback", "Disconnect", "Auth", "Subscribe", "Unsubscribe", "Connack")
        acc5 = [sh for sh in v5 if not sh.malformed_by_shape]
        if tier == "quick":
            pick = [sh for sh in acc5 if sh.typ in small] + one_per_type(encodable(v5))
        else:
            pick = acc5
        seen = set()
        for sh in pick:
            if sh.name in seen:
                continue
            seen.add(sh.name)
            fn, code, w, unwind, meta = G.emit_dec(sh, prop="C11")
            meta["mode"] = "C11 (a): decoded fields = specification values of the frame cells"
            m.add(fn, code, w, unwind, meta=meta)
            if sh.ctor is not None and sh.canonical:
                fn, code, w, unwind, meta = G.emit_enc(sh, prop="C11", level="body", want_bytes=not sh.b.order_free)
                meta["mode"] = "C11 (b): a value with those fields is written as exactly the frame cells"
                m.add(fn, code, w, unwind, stubs=G.STUBS_ENCODE, meta=meta)
        m.write(srcdir)
    return g


def gen_c14(tier):
    def g(srcdir):
        m = G.Module("g_c14", "C14: read error at every position of a valid encoding -> I/O error of that kind (async decoder)")
        cand = [G.v3_publish(1, 1, 1), G.v3_connect("V311", 0x02), G.v3_subscribe((1,)), G.v3_pidonly("Puback"), G.v3_suback(1),
                G.v5_publish(0, 1, 0, [(0x08, 1)]), G.v5_ack("Puback", "long", [(0x1F, 1)], False), G.v5_subscribe((1,)),
                G.v5_disconnect("long", [(0x11, None)]), G.v5_connect(0x02)]
        if tier == "thorough":
            # (the full v3 CONNECT with will + user name + password, 0xC6, gets no verdict: solver ERROR, measured)
            cand += [G.v5_connect(0x06, 1, (), 1, 1, [(0x08, 1)]), G.v3_connect("V311", 0x06), G.v5_auth("long", [(0x15, 1)]), G.v5_codes("Suback", 1, [(0x1F, 1)])]
        for sh in cand:
            fn, code, w, unwind, meta = G.emit_fault(sh)
            m.add(fn, code, w, unwind, stubs=G.STUBS_FAULT, meta=meta)
        m.write(srcdir, chunk=4)
    return g
