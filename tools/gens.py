"""Shape lists -> generated scenario modules (g_*.rs). Each generator is called by the
driver with the harness crate's src directory."""
import mqttgen as G


def gen_probe(srcdir):
    m = G.Module("g_probe", "cost probes")
    import os
    if os.environ.get("PROBE_SET") == "user":
        shapes = [G.v5_publish(0, 1, 0, [(0x26, (1, 1))]), G.v5_publish(0, 1, 1, [(0x26, (1, 1))]), G.v5_codes("Suback", 1, [(0x26, (1, 1))]),
                  G.v5_subscribe((1,), [(0x26, (1, 1))]), G.v5_subscribe((1,), [(0x0B, 1)]), G.v5_subscribe((1,), [(0x0B, 128)]),
                  G.v5_connack([(0x26, (1, 1))]), G.v5_connect(0x02, 1, [(0x26, (1, 1))]), G.v5_ack("Puback", "long", [(0x26, (1, 1)), (0x26, (0, 2))], False),
                  G.v5_unsubscribe((1,), [(0x26, (1, 1))])]
        for sh in shapes:
            fn, code, w, unwind, meta = G.emit_dec(sh)
            m.add(fn, code, w, unwind, meta=meta)
            if sh.typ == "Publish":
                m.add(fn + "_fe", code.replace(fn, fn + "_fe"), w, unwind, stubs=G.STUBS_DECODE + [G.STUB_FROM_ELEM], meta=meta)
        m.write(srcdir, chunk=1000)
        return m
    if os.environ.get("PROBE_SET") == "connect":
        shapes = [G.v3_connect("V311", 0x02), G.v3_connect("V311", 0xC6), G.v3_connect("V310", 0x2E), G.v3_connect("V311", 0x03),
                  G.v5_connect(0x02), G.v5_connect(0xC6, 1, [(0x11, None)], 1, 1, [(0x18, None)]),
                  G.v5_publish(0, 1, 0, [(0x26, (1, 1))]), G.v5_subscribe((1,), [(0x0B, 1)]), G.v5_publish(1, 1, 1, [(0x01, 1), (0x26, (1, 1))]),
                  G.v5_connack([(0x21, None), (0x1F, 1)])]
        for sh in shapes:
            fn, code, w, unwind, meta = G.emit_dec(sh)
            m.add(fn, code, w, unwind, meta=meta)
        m.write(srcdir, chunk=1000)
        return m
    shapes = [
        G.v3_publish(1, 2, 2),
        G.v3_connect("V311", 0xC6),
        G.v3_subscribe((2, 1)),
        G.v3_suback(2),
        G.v3_pidonly("Puback"),
        G.v3_connack(),
        G.v5_connack([(0x21, None), (0x1F, 1)]),
        G.v5_publish(1, 1, 1, [(0x01, 1), (0x26, (1, 1))]),
        G.v5_ack("Puback", "long", [(0x1F, 1)]),
        G.v5_subscribe((1,), [(0x0B, 1)]),
        G.v5_connect(0x86, 1, [(0x11, None)], 1, 1, [(0x18, None)]),
    ]
    for sh in shapes:
        fn, code, w, unwind, meta = G.emit_dec(sh)
        m.add(fn, code, w, unwind, meta=meta)
    fn, code, w, unwind, meta = G.emit_dec(shapes[0], bad=("utf8", 0))
    m.add(fn, code, w, unwind, meta=meta)
    fn, code, w, unwind, meta = G.emit_dec(shapes[2], bad=("filter", 1))
    m.add(fn, code, w, unwind, meta=meta)
    m.write(srcdir, chunk=1000)
    return m


import shapes as SH


def _dec_module(name, doc, shapes_list, prop):
    m = G.Module(name, doc)
    for sh in shapes_list:
        fn, code, w, unwind, meta = G.emit_dec(sh, prop=prop)
        m.add(fn, code, w, unwind, meta=meta)
    return m


def gen_c04(tier):
    def g(srcdir):
        _dec_module("g_c04_v3", "C04: strict decoder acceptance = MQTT 3.1/3.1.1 grammar, per shape", SH.v3_shapes(tier), "C04").write(srcdir)
        _dec_module("g_c04_v5", "C04: strict decoder acceptance = MQTT 5.0 grammar, per shape", SH.v5_shapes(tier), "C04").write(srcdir)
    return g


def encodable(shapes_list):
    return [sh for sh in shapes_list if sh.ctor is not None and not sh.malformed_by_shape and sh.canonical]


def _enc_module(name, doc, shapes_list, prop, **kw):
    m = G.Module(name, doc)
    seen_types = set()
    for sh in encodable(shapes_list):
        fn, code, w, unwind, meta = G.emit_enc(sh, prop=prop, level="body", **kw)
        m.add(fn, code, w, unwind, stubs=G.STUBS_ENCODE, meta=meta)
        # packet level (fixed header + glue): the first (smallest) shape of each packet type
        if G.body_ctor(sh) is not None and (sh.fam, sh.typ) not in seen_types and sh.total_len <= 24 and (sh.fam, sh.typ) not in (("v5", "Connect"), ("v3", "Connect"), ("v5", "Publish"), ("v5", "Connack")):
            seen_types.add((sh.fam, sh.typ))
            fn, code, w, unwind, meta = G.emit_enc(sh, prop=prop, level="packet", **kw)
            m.add(fn, code, w, unwind, stubs=G.STUBS_ENCODE, meta=meta)
    return m


def gen_c10(tier):
    def g(srcdir):
        _enc_module("g_c10_v3", "C10: encoder output = spec wire image (v3)", SH.v3_shapes(tier), "C10", want_len=False).write(srcdir)
        _enc_module("g_c10_v5", "C10: encoder output = spec wire image (v5)", SH.v5_shapes(tier), "C10", want_len=False).write(srcdir)
    return g
