#!/usr/bin/env python3
"""Spec-side description of MQTT v3.1/v3.1.1/v5.0 control packets, written from the OASIS
documents, and the generators that turn one *shape* (concrete lengths / presence / ids /
layout-deciding codes; everything else symbolic) into Rust scenarios for the harness crate.

A shape yields
  * draws      : symbolic variables taken from the witness (`s.u8()`, `s.u16()`, arrays)
  * cells      : the wire image as a list of Rust u8 expressions over those variables --
                 structural bytes are literals, content bytes are variables (spec layout)
  * cons       : well-formedness constraints (Rust bool expr over the variables, error the
                 library documents for the violation, role key)
  * checks     : for an accepted packet `p`, field == value the spec assigns to those bytes
  * ctor       : Rust expression building the packet value from the variables (encode side)

Nothing in this file is derived from mqtt-proto's tables: property ids, wire types, reason
codes, flag nibbles, bit layouts are literals copied from the specifications.
"""
import itertools

# ---------------------------------------------------------------------------------------
# specification tables
# ---------------------------------------------------------------------------------------

# MQTT 5.0 section 2.2.2.2, Table 2-4: id -> (name, wire type)
PROPS = {
    0x01: ("PayloadFormatIndicator", "byte"),
    0x02: ("MessageExpiryInterval", "u32"),
    0x03: ("ContentType", "str"),
    0x08: ("ResponseTopic", "str"),
    0x09: ("CorrelationData", "bin"),
    0x0B: ("SubscriptionIdentifier", "varint"),
    0x11: ("SessionExpiryInterval", "u32"),
    0x12: ("AssignedClientIdentifier", "str"),
    0x13: ("ServerKeepAlive", "u16"),
    0x15: ("AuthenticationMethod", "str"),
    0x16: ("AuthenticationData", "bin"),
    0x17: ("RequestProblemInformation", "byte"),
    0x18: ("WillDelayInterval", "u32"),
    0x19: ("RequestResponseInformation", "byte"),
    0x1A: ("ResponseInformation", "str"),
    0x1C: ("ServerReference", "str"),
    0x1F: ("ReasonString", "str"),
    0x21: ("ReceiveMaximum", "u16"),
    0x22: ("TopicAliasMaximum", "u16"),
    0x23: ("TopicAlias", "u16"),
    0x24: ("MaximumQoS", "byte"),
    0x25: ("RetainAvailable", "byte"),
    0x26: ("UserProperty", "pair"),
    0x27: ("MaximumPacketSize", "u32"),
    0x28: ("WildcardSubscriptionAvailable", "byte"),
    0x29: ("SubscriptionIdentifierAvailable", "byte"),
    0x2A: ("SharedSubscriptionAvailable", "byte"),
}

# Table 2-4, last column: which property lists may carry which ids
ALLOWED = {
    "Connect": [0x11, 0x21, 0x27, 0x22, 0x19, 0x17, 0x26, 0x15, 0x16],
    "Will": [0x18, 0x01, 0x02, 0x03, 0x08, 0x09, 0x26],
    "Connack": [0x11, 0x21, 0x24, 0x25, 0x27, 0x12, 0x22, 0x1F, 0x26, 0x28, 0x29, 0x2A, 0x13, 0x1A, 0x1C, 0x15, 0x16],
    "Publish": [0x01, 0x02, 0x23, 0x08, 0x09, 0x26, 0x0B, 0x03],
    "Puback": [0x1F, 0x26], "Pubrec": [0x1F, 0x26], "Pubrel": [0x1F, 0x26], "Pubcomp": [0x1F, 0x26],
    "Subscribe": [0x0B, 0x26],
    "Suback": [0x1F, 0x26],
    "Unsubscribe": [0x26],
    "Unsuback": [0x1F, 0x26],
    "Disconnect": [0x11, 0x1F, 0x26, 0x1C],
    "Auth": [0x15, 0x16, 0x1F, 0x26],
}

# library field name of each property (public struct fields = observable API)
PROP_FIELD = {
    0x01: "payload_is_utf8", 0x02: "message_expiry_interval", 0x03: "content_type", 0x08: "response_topic",
    0x09: "correlation_data", 0x0B: "subscription_id", 0x11: "session_expiry_interval", 0x12: "assigned_client_id",
    0x13: "server_keep_alive", 0x15: "auth_method", 0x16: "auth_data", 0x17: "request_problem_info",
    0x18: "delay_interval", 0x19: "request_response_info", 0x1A: "response_info", 0x1C: "server_reference",
    0x1F: "reason_string", 0x21: "receive_max", 0x22: "topic_alias_max", 0x23: "topic_alias", 0x24: "max_qos",
    0x25: "retain_available", 0x27: "max_packet_size", 0x28: "wildcard_subscription_available",
    0x29: "subscription_id_available", 0x2A: "shared_subscription_available",
}

PROPS_STRUCT = {"Connect": "ConnectProperties", "Will": "WillProperties", "Connack": "ConnackProperties",
                "Publish": "PublishProperties", "Puback": "PubackProperties", "Pubrec": "PubrecProperties",
                "Pubrel": "PubrelProperties", "Pubcomp": "PubcompProperties", "Subscribe": "SubscribeProperties",
                "Suback": "SubackProperties", "Unsubscribe": "UnsubscribeProperties", "Unsuback": "UnsubackProperties",
                "Disconnect": "DisconnectProperties", "Auth": "AuthProperties"}

# reason codes per packet type: MQTT 5.0 sections 3.2.2.2, 3.4.2.1, 3.5.2.1, 3.6.2.1, 3.7.2.1, 3.9.3, 3.11.3, 3.14.2.1, 3.15.2.1
REASONS = {
    "Connack": [0x00, 0x80, 0x81, 0x82, 0x83, 0x84, 0x85, 0x86, 0x87, 0x88, 0x89, 0x8A, 0x8C, 0x90, 0x95, 0x97, 0x99, 0x9A, 0x9B, 0x9C, 0x9D, 0x9F],
    "Puback": [0x00, 0x10, 0x80, 0x83, 0x87, 0x90, 0x91, 0x97, 0x99],
    "Pubrec": [0x00, 0x10, 0x80, 0x83, 0x87, 0x90, 0x91, 0x97, 0x99],
    "Pubrel": [0x00, 0x92],
    "Pubcomp": [0x00, 0x92],
    "Suback": [0x00, 0x01, 0x02, 0x80, 0x83, 0x87, 0x8F, 0x91, 0x97, 0x9E, 0xA1, 0xA2],
    "Unsuback": [0x00, 0x11, 0x80, 0x83, 0x87, 0x8F, 0x91],
    "Disconnect": [0x00, 0x04, 0x80, 0x81, 0x82, 0x83, 0x87, 0x89, 0x8B, 0x8D, 0x8E, 0x8F, 0x90, 0x93, 0x94, 0x95, 0x96,
                   0x97, 0x98, 0x99, 0x9A, 0x9B, 0x9C, 0x9D, 0x9E, 0x9F, 0xA0, 0xA1, 0xA2],
    "Auth": [0x00, 0x18, 0x19],
}
REASON_ENUM = {"Connack": "ConnectReasonCode", "Puback": "PubackReasonCode", "Pubrec": "PubrecReasonCode",
               "Pubrel": "PubrelReasonCode", "Pubcomp": "PubcompReasonCode", "Suback": "SubscribeReasonCode",
               "Unsuback": "UnsubscribeReasonCode", "Disconnect": "DisconnectReasonCode", "Auth": "AuthReasonCode"}

# fixed header: type nibble and required flags (MQTT 3.1.1 / 5.0 Table 2.2)
TYPE_NIBBLE = {"Connect": 1, "Connack": 2, "Publish": 3, "Puback": 4, "Pubrec": 5, "Pubrel": 6, "Pubcomp": 7,
               "Subscribe": 8, "Suback": 9, "Unsubscribe": 10, "Unsuback": 11, "Pingreq": 12, "Pingresp": 13,
               "Disconnect": 14, "Auth": 15}
FIXED_FLAGS = {"Pubrel": 2, "Subscribe": 2, "Unsubscribe": 2}


def varint_bytes(v):
    out = []
    while True:
        d = v % 128
        v //= 128
        if v > 0:
            d |= 0x80
        out.append(d)
        if v == 0:
            return out


def in_table(var, vals):
    """loop-free membership test"""
    return "(" + " || ".join("%s == 0x%02x" % (var, v) for v in vals) + ")"


def rs_list(vals):
    return "[" + ", ".join("0x%02x" % v for v in vals) + "]"


# ---------------------------------------------------------------------------------------
# builder
# ---------------------------------------------------------------------------------------

class B:
    def __init__(self, fam):
        self.fam = fam            # 'v3' | 'v5'
        self.draws = []           # rust statements
        self.pre = []             # statements after draws (derived values)
        self.cells = []           # rust u8 expressions (body only)
        self.cons = []            # (expr, key, err) err = symbolic error name tuple
        self.assumes = []         # domain restrictions of the scenario (stated in evidence)
        self.checks = []          # (expr over p, key)
        self.nv = 0
        self.utf8 = []            # names of utf8-validated regions in wire order (for class stubs)
        self.names = []           # topic-name validated regions
        self.filters = []         # topic-filter validated regions
        self.wbytes = 0
        self.notes = []
        self.rlen = {}            # validated region -> concrete length
        self.empty_filter = False
        self.nonminimal = False   # contains a non-minimal variable byte integer (outside C04's domain)
        self.order_free = False   # a property list with several distinct ids (wire order not prescribed)
        self.pfi = {}             # owner -> expr of the payload format indicator byte
        self.enc_assumes = []     # extra domain restrictions on the encode side (value not expressible otherwise)

    def _n(self, hint):
        self.nv += 1
        return "%s%d" % (hint, self.nv)

    def u8(self, hint="b"):
        n = self._n(hint)
        self.draws.append("let %s: u8 = s.u8();" % n)
        self.wbytes += 1
        return n

    def u16(self, hint="h"):
        n = self._n(hint)
        self.draws.append("let %s: u16 = s.u16();" % n)
        self.wbytes += 2
        return n

    def u32(self, hint="w"):
        n = self._n(hint)
        self.draws.append("let %s: u32 = s.u32();" % n)
        self.wbytes += 4
        return n

    def boolean(self, hint="f"):
        n = self._n(hint)
        self.draws.append("let %s: bool = s.bool();" % n)
        self.wbytes += 1
        return n

    def arr(self, k, hint="a"):
        n = self._n(hint)
        self.draws.append("let %s: [u8; %d] = s.bytes();" % (n, k))
        self.wbytes += k
        return n

    def put(self, *exprs):
        for e in exprs:
            self.cells.append(e if isinstance(e, str) else "0x%02x" % e)

    def put_u16(self, e):
        self.put("(%s >> 8) as u8" % e, "(%s & 0xff) as u8" % e)

    def put_u32(self, e):
        self.put("(%s >> 24) as u8" % e, "((%s >> 16) & 0xff) as u8" % e, "((%s >> 8) & 0xff) as u8" % e, "(%s & 0xff) as u8" % e)

    def put_arr(self, name, k):
        for i in range(k):
            self.put("%s[%d]" % (name, i))

    def lp(self, name, k):
        """length-prefixed (2 bytes, big endian) field with concrete length k"""
        self.put(k >> 8, k & 0xff)
        self.put_arr(name, k)

    def con(self, expr, key, err, kind="scalar", region=None):
        """kind: scalar (symbolic content decides) | const (shape-level, expr is a literal) |
        utf8 / name / filter (decided by a validator call on `region`; class stubs fix the verdict)"""
        if expr in ("false", "true"):
            kind = "const"
        self.cons.append((expr, key, err, kind, region))

    def chk(self, expr, key):
        self.checks.append((expr, key))

    # -- composite fields ----------------------------------------------------------------
    def string(self, k, hint="st", key="string"):
        """UTF-8 Encoded String (1.5.3 / 1.5.4): returns array var"""
        a = self.arr(k, hint)
        self.lp(a, k)
        self.con("utf8_model(&%s)" % a, key + ".utf8", ("InvalidString",), "utf8", a)
        self.utf8.append(a)
        self.rlen[a] = k
        return a

    def binary(self, k, hint="bn"):
        a = self.arr(k, hint)
        self.lp(a, k)
        return a

    def topic_name(self, k, hint="tn", key="topic_name", err=("InvalidTopicName",)):
        a = self.arr(k, hint)
        self.lp(a, k)
        self.con("utf8_model(&%s)" % a, key + ".utf8", ("InvalidString",), "utf8", a)
        self.con("topic_name_bytes_ok(&%s)" % a, key + ".wildcard", err, "name", a)
        self.utf8.append(a)
        self.names.append(a)
        self.rlen[a] = k
        return a

    def topic_filter(self, k, hint="tf", key="topic_filter"):
        a = self.arr(k, hint)
        self.lp(a, k)
        # packet-level scenarios keep filter content ASCII and non-shared (DESIGN 3.4)
        self.assumes.append("ascii(&%s)" % a)
        self.con("utf8_model(&%s)" % a, key + ".utf8", ("InvalidString",), "utf8", a)
        if k == 0:
            # [MQTT-4.7.3-1]: a topic filter is at least one character long -- shape-level malformation
            self.con("false", key + ".empty", ("InvalidTopicFilter",))
            self.empty_filter = True
        else:
            self.con("plain_filter_bytes_ok(&%s)" % a, key + ".syntax", ("InvalidTopicFilter",), "filter", a)
        self.utf8.append(a)
        self.filters.append(a)
        self.rlen[a] = k
        return a


def s_of(a):
    """Rust: String from a byte array var (content assumed valid UTF-8 by the caller)"""
    return "unsafe { String::from_utf8_unchecked(%s.to_vec()) }" % a


def arc_s(a):
    return "Arc::new(%s)" % s_of(a)


# ---------------------------------------------------------------------------------------
# v5 property lists
# ---------------------------------------------------------------------------------------

def prop_value(b, pid, lens, owner, pvar, idx):
    """append one property (id already known) to the builder; returns (ctor field assignment or user prop ctor)"""
    name, wt = PROPS[pid]
    fld = PROP_FIELD.get(pid)
    key = "prop.%s" % name
    b.put(pid)
    if wt == "byte":
        if pid == 0x01 and lens in (0, 1):
            # payload format indicator as a *concrete* shape value: it decides whether the payload is
            # UTF-8 checked, i.e. the order of validator calls after it (class stubs count calls)
            v = "%du8" % lens
            b.put(lens)
        else:
            v = b.u8("pb")
            b.put(v)
        if pid == 0x01:
            b.pfi[owner] = v
        if pid == 0x24:
            # Maximum QoS: 0 or 1 (3.2.2.3.4)
            b.con("%s <= 1" % v, key + ".range", ("InvalidByteProperty", name, v))
            b.chk("%s.%s == Some(if %s == 0 { mp::QoS::Level0 } else { mp::QoS::Level1 })" % (pvar, fld, v), key)
            return (fld, "Some(if %s == 0 { mp::QoS::Level0 } else { mp::QoS::Level1 })" % v), 2
        b.con("true" if v in ("0u8", "1u8") else "%s <= 1" % v, key + ".range", ("InvalidByteProperty", name, v))
        b.chk("%s.%s == Some(%s == 1)" % (pvar, fld, v), key)
        return (fld, "Some(%s == 1)" % v), 2
    if wt == "u16":
        v = b.u16("ph")
        b.put_u16(v)
        b.chk("%s.%s == Some(%s)" % (pvar, fld, v), key)
        return (fld, "Some(%s)" % v), 3
    if wt == "u32":
        v = b.u32("pw")
        b.put_u32(v)
        b.chk("%s.%s == Some(%s)" % (pvar, fld, v), key)
        return (fld, "Some(%s)" % v), 5
    if wt == "varint":
        # Subscription Identifier: the decoder recomputes the encoded width from the value
        # (var_int_len) and uses it in length arithmetic, so the *value* is part of the shape (R3);
        # boundary values of every width are enumerated.
        v = lens if isinstance(lens, int) else 1
        bs = varint_bytes(v)
        for d in bs:
            b.put(d)
        b.chk("%s.%s.map(|x| x.value()) == Some(%d)" % (pvar, fld, v), key)
        return (fld, "Some(mp::v5::VarByteInt::try_from(%du32).unwrap())" % v), 1 + len(bs)
    if wt == "str":
        k = lens
        if pid == 0x08:
            a = b.topic_name(k, "rt", key, ("InvalidResponseTopic",))
            b.chk("%s.%s.as_ref().map(|x| eq_bytes(x.as_bytes(), &%s)) == Some(true)" % (pvar, fld, a), key)
            return (fld, "Some(mp::TopicName::try_from(%s).unwrap())" % s_of(a)), 3 + k
        a = b.string(k, "ps", key)
        b.chk("%s.%s.as_ref().map(|x| eq_bytes(x.as_bytes(), &%s)) == Some(true)" % (pvar, fld, a), key)
        return (fld, "Some(%s)" % arc_s(a)), 3 + k
    if wt == "bin":
        k = lens
        a = b.binary(k, "pd")
        b.chk("%s.%s.as_ref().map(|x| eq_bytes(x.as_ref(), &%s)) == Some(true)" % (pvar, fld, a), key)
        return (fld, "Some(Bytes::copy_from_slice(&%s))" % a), 3 + k
    if wt == "pair":
        k1, k2 = lens
        a1 = b.string(k1, "uk", key + ".name")
        a2 = b.string(k2, "uv", key + ".value")
        b.chk("%s.user_properties.len() > %d && eq_bytes(%s.user_properties[%d].name.as_bytes(), &%s) && eq_bytes(%s.user_properties[%d].value.as_bytes(), &%s)"
              % (pvar, idx, pvar, idx, a1, pvar, idx, a2), key)
        return ("user", "mp::v5::UserProperty { name: %s, value: %s }" % (arc_s(a1), arc_s(a2))), 5 + k1 + k2
    raise ValueError(wt)


def prop_wire_len(pid, lens):
    wt = PROPS[pid][1]
    if wt == "byte":
        return 2
    if wt == "u16":
        return 3
    if wt == "u32":
        return 5
    if wt == "varint":
        return 1 + len(varint_bytes(lens if isinstance(lens, int) else 1))
    if wt in ("str", "bin"):
        return 3 + lens
    if wt == "pair":
        return 5 + lens[0] + lens[1]


def props(b, owner, plist, pvar, len_delta=0, nonmin=False):
    """property list `plist` = [(id, lens)] in wire order for `owner`; returns ctor expr.
    Constraint side: ids not allowed for the owner / unknown ids / duplicates are *shape-level*
    malformations (the id sequence is concrete), recorded as constant-false constraints.
    ('raw', id) = an identifier that is not in Table 2-4 followed by one arbitrary byte.
    len_delta: the declared Property Length is (true length + len_delta)."""
    total = sum(2 if pid == "raw" else prop_wire_len(pid, l) for pid, l in plist)
    declared = total + len_delta
    if nonmin:
        # a two-byte spelling of a value below 128 (not minimal; accepted by the decoders' var-int reader)
        assert declared < 128
        b.put(0x80 | declared, 0x00)
        b.nonminimal = True
    else:
        for d in varint_bytes(declared):
            b.put(d)
    if len_delta < 0:
        # the last property runs past the declared length: InvalidPropertyLength(declared)
        b.con("false", "prop.length", ("InvalidPropertyLength", str(declared)))
    elif len_delta > 0:
        # the list claims more bytes than the frame holds (callers use this where nothing follows the
        # list): the strict decoder reports the frame-level length error
        b.con("false", "prop.length", ("InvalidRemainingLength",))
    assigns = {}
    users = []
    seen = set()
    nuser = 0
    stop = False
    # the order of *different* properties on the wire is the encoder's free choice: shapes whose list
    # holds more than one distinct id are compared by length only on the encode side
    if len(set(pid for pid, _ in plist)) > 1:
        b.order_free = True
    for pid, l in plist:
        if pid == "raw":
            b.put(l)
            x = b.u8("px")
            b.put(x)
            if not stop:
                b.con("false", "prop.unknown_id", ("InvalidPropertyId", "0x%02x" % l))
            stop = True
            continue
        name = PROPS[pid][0]
        if stop:
            # bytes after the first shape-level malformation only have to be there
            nb = B(b.fam)
            prop_value(nb, pid, l, owner, pvar, nuser)
            b.draws += nb.draws
            b.cells += nb.cells
            b.assumes += nb.assumes
            b.wbytes += nb.wbytes
            b.nv += 100
            continue
        if pid not in ALLOWED[owner]:
            b.con("false", "prop.%s.not_allowed" % name, ("InvalidProperty", owner, name))
            stop = True
        elif pid in seen and pid != 0x26:
            b.con("false", "prop.%s.duplicate" % name, ("DuplicatedProperty", name))
            stop = True
        seen.add(pid)
        if stop:
            nb = B(b.fam)
            nb.nv = b.nv + 50
            prop_value(nb, pid, l, owner, pvar, nuser)
            b.draws += nb.draws
            b.cells += nb.cells
            b.assumes += nb.assumes
            b.wbytes += nb.wbytes
            b.nv = nb.nv + 50
            continue
        (fld, val), _ = prop_value(b, pid, l, owner, pvar, nuser)
        if fld == "user":
            users.append(val)
            nuser += 1
        else:
            assigns.setdefault(fld, val)
    if not stop:
        b.chk("%s.user_properties.len() == %d" % (pvar, nuser), "prop.user.count")
        # absent properties are None
        for pid in ALLOWED[owner]:
            if pid != 0x26 and pid not in seen:
                b.chk("%s.%s.is_none()" % (pvar, PROP_FIELD[pid]), "prop.%s.absent" % PROPS[pid][0])
    st = PROPS_STRUCT[owner]
    # every field spelled out (no `..Default::default()`: dropping the temporary default value trips a
    # spurious dealloc-size check in CBMC's heap model for PublishProperties / WillProperties)
    allf = []
    for pid in ALLOWED[owner]:
        if pid == 0x26:
            continue
        f = PROP_FIELD[pid]
        allf.append("%s: %s" % (f, assigns.get(f, "None")))
    fields = ", ".join(allf)
    ctor = "mp::v5::%s { %s%suser_properties: vec![%s] }" % (
        st, fields, ", " if fields else "", ", ".join(users))
    return ctor, len(varint_bytes(declared)) + total


# ---------------------------------------------------------------------------------------
# packet layouts
# ---------------------------------------------------------------------------------------

class Shape:
    """canonical: the encoder emits exactly this spelling for the value `ctor` builds"""

    def __init__(self, fam, typ, name, ctrl, b, variant, ctor, canonical=True, note=""):
        self.fam, self.typ, self.name, self.ctrl, self.b = fam, typ, name, ctrl, b
        self.variant = variant      # rust pattern binding `p`
        self.ctor = ctor            # rust expr of type mp::<fam>::Packet (None: not constructible, e.g. malformed ids)
        self.canonical = canonical  # the encoder emits exactly this spelling
        self.note = note

    @property
    def malformed_by_shape(self):
        return any(c[0] == "false" for c in self.b.cons)

    @property
    def body_len(self):
        return len(self.b.cells)

    @property
    def header(self):
        return [self.ctrl] + varint_bytes(self.body_len)

    @property
    def total_len(self):
        return len(self.header) + self.body_len


def _pid(b, key="pid"):
    v = b.u16("pid")
    b.put_u16(v)
    b.con("%s != 0" % v, key + ".zero", ("ZeroPid",))
    return v


def _connect_common(b, fam, flags, proto_bytes, level):
    """CONNECT variable header (3.1.2). `flags` is a *concrete* connect-flags byte: bits 7/6/2 decide
    the payload layout and the others are tested with masks that symbolic execution cannot fold, so
    the whole byte is part of the shape (R3); all 256 values are enumerated in the thorough tier."""
    b.put(0, len(proto_bytes))
    for c in proto_bytes:
        b.put(c)
    b.put(level)
    b.put(flags)
    fl = "0x%02xu8" % flags
    b.con("true" if flags & 1 == 0 else "false", "connect.reserved_flag", ("InvalidConnectFlags", fl))
    ka = b.u16("ka")
    b.put_u16(ka)
    return fl, ka


def connect_flags(will=False, user=False, pw=False, wq=0, wr=False, clean=False, rsv=False):
    return (0x80 if user else 0) | (0x40 if pw else 0) | (0x20 if wr else 0) | ((wq & 3) << 3) | (0x04 if will else 0) | (0x02 if clean else 0) | (1 if rsv else 0)


def v3_connect(proto="V311", flags=0x02, cid_len=1, wt_len=1, wm_len=1, user_len=1, pw_len=1):
    b = B("v3")
    pb, level = (b"MQIsdp", 3) if proto == "V310" else (b"MQTT", 4)
    will, user, pw = bool(flags & 4), bool(flags & 0x80), bool(flags & 0x40)
    wq = (flags >> 3) & 3
    fl, ka = _connect_common(b, "v3", flags, pb, level)
    cid = b.string(cid_len, "cid", "connect.client_id")
    b.chk("p.protocol == mp::Protocol::%s" % proto, "connect.protocol")
    b.chk("p.clean_session == %s" % str(bool(flags & 2)).lower(), "connect.clean_session")
    b.chk("p.keep_alive == %s" % ka, "connect.keep_alive")
    b.chk("eq_bytes(p.client_id.as_bytes(), &%s)" % cid, "connect.client_id")
    wctor = "None"
    if will:
        wt = b.topic_name(wt_len, "wt", "connect.will_topic")
        wm = b.binary(wm_len, "wm")
        b.con("true" if wq != 3 else "false", "connect.will_qos", ("InvalidQos", "3"))
        b.chk("p.last_will.is_some()", "connect.will_present")
        b.chk("p.last_will.as_ref().map(|w| w.qos as u8 == %d && w.retain == %s && eq_bytes(w.topic_name.as_bytes(), &%s) && eq_bytes(w.message.as_ref(), &%s)) == Some(true)"
              % (wq, str(bool(flags & 0x20)).lower(), wt, wm), "connect.will_fields")
        wctor = ("Some(mp::v3::LastWill { qos: mp::QoS::from_u8(%d).unwrap(), retain: %s, topic_name: mp::TopicName::try_from(%s).unwrap(), message: Bytes::copy_from_slice(&%s) })"
                 % (wq & 3 if wq != 3 else 0, str(bool(flags & 0x20)).lower(), s_of(wt), wm))
    else:
        # [MQTT-3.1.2-13]: will QoS must be 0 without a will; will-retain without will is a pinned leniency
        b.con("true" if wq == 0 else "false", "connect.will_qos_without_will", ("InvalidConnectFlags", fl))
        b.chk("p.last_will.is_none()", "connect.will_absent")
    uctor = "None"
    if user:
        u = b.string(user_len, "un", "connect.username")
        b.chk("p.username.as_ref().map(|x| eq_bytes(x.as_bytes(), &%s)) == Some(true)" % u, "connect.username")
        uctor = "Some(%s)" % arc_s(u)
    else:
        b.chk("p.username.is_none()", "connect.username_absent")
    pctor = "None"
    if pw:
        pwa = b.binary(pw_len, "pw")
        b.chk("p.password.as_ref().map(|x| eq_bytes(x.as_ref(), &%s)) == Some(true)" % pwa, "connect.password")
        pctor = "Some(Bytes::copy_from_slice(&%s))" % pwa
    else:
        b.chk("p.password.is_none()", "connect.password_absent")
    ctor = ("mp::v3::Packet::Connect(mp::v3::Connect { protocol: mp::Protocol::%s, clean_session: %s, keep_alive: %s, client_id: %s, last_will: %s, username: %s, password: %s })"
            % (proto, str(bool(flags & 2)).lower(), ka, arc_s(cid), wctor, uctor, pctor))
    # spellings the encoder can emit: reserved 0, and no will bits without a will
    canonical = (flags & 1 == 0) and (will or (flags & 0x38) == 0) and wq != 3
    name = "connect_%s_f%02x_c%d%s%s%s" % (proto.lower(), flags, cid_len, "_w%d_%d" % (wt_len, wm_len) if will else "",
                                          "_u%d" % user_len if user else "", "_p%d" % pw_len if pw else "")
    return Shape("v3", "Connect", name, 0x10, b, "mp::v3::Packet::Connect(p)", ctor if canonical else None, canonical)


def v3_connack():
    b = B("v3")
    f = b.u8("sp")
    c = b.u8("rc")
    b.put(f, c)
    b.con("%s <= 1" % f, "connack.flags", ("InvalidConnackFlags", f))
    b.con("%s <= 5" % c, "connack.return_code", ("InvalidConnectReturnCode", c))
    b.chk("p.session_present == (%s == 1)" % f, "connack.session_present")
    b.chk("p.code as u8 == %s" % c, "connack.code")
    ctor = "mp::v3::Packet::Connack(mp::v3::Connack { session_present: %s == 1, code: mp::v3::ConnectReturnCode::from_u8(%s).unwrap() })" % (f, c)
    return Shape("v3", "Connack", "connack", 0x20, b, "mp::v3::Packet::Connack(p)", ctor)


def _publish_head(b, fam, qos, tl, dup, retain):
    t = b.topic_name(tl, "tn", "publish.topic")
    pid = None
    if qos > 0:
        pid = _pid(b, "publish.pid")
    b.chk("p.dup == %s && p.retain == %s" % ("true" if dup else "false", "true" if retain else "false"), "publish.flags")
    if qos == 0:
        b.chk("p.qos_pid == mp::QosPid::Level0", "publish.qos_pid")
        qp = "mp::QosPid::Level0"
    else:
        b.chk("p.qos_pid == mp::QosPid::Level%d(mp::Pid::try_from(%s).unwrap())" % (qos, pid), "publish.qos_pid")
        qp = "mp::QosPid::Level%d(mp::Pid::try_from(%s).unwrap())" % (qos, pid)
    b.chk("eq_bytes(p.topic_name.as_bytes(), &%s)" % t, "publish.topic")
    return t, pid, qp


def v3_publish(qos=0, tl=1, pl=1, dup=False, retain=False):
    b = B("v3")
    t, pid, qp = _publish_head(b, "v3", qos, tl, dup, retain)
    pay = b.arr(pl, "pay")
    b.put_arr(pay, pl)
    b.chk("eq_bytes(p.payload.as_ref(), &%s)" % pay, "publish.payload")
    ctrl = 0x30 | (8 if dup else 0) | (qos << 1) | (1 if retain else 0)
    ctor = ("mp::v3::Packet::Publish(mp::v3::Publish { dup: %s, retain: %s, qos_pid: %s, topic_name: mp::TopicName::try_from(%s).unwrap(), payload: Bytes::copy_from_slice(&%s) })"
            % (str(dup).lower(), str(retain).lower(), qp, s_of(t), pay))
    name = "publish_q%d_t%d_p%d%s%s" % (qos, tl, pl, "_dup" if dup else "", "_ret" if retain else "")
    return Shape("v3", "Publish", name, ctrl, b, "mp::v3::Packet::Publish(p)", ctor)


def v3_pidonly(typ):
    b = B("v3")
    pid = _pid(b, typ.lower() + ".pid")
    b.chk("p.value() == %s" % pid, typ.lower() + ".pid")
    ctrl = (TYPE_NIBBLE[typ] << 4) | FIXED_FLAGS.get(typ, 0)
    ctor = "mp::v3::Packet::%s(mp::Pid::try_from(%s).unwrap())" % (typ, pid)
    return Shape("v3", typ, typ.lower(), ctrl, b, "mp::v3::Packet::%s(p)" % typ, ctor)


def v3_subscribe(lens=(1,)):
    b = B("v3")
    pid = _pid(b, "subscribe.pid")
    b.chk("p.pid.value() == %s" % pid, "subscribe.pid")
    if not lens:
        b.con("false", "subscribe.empty", ("EmptySubscription",))
    items = []
    for i, k in enumerate(lens):
        f = b.topic_filter(k, "tf", "subscribe.filter%d" % i)
        q = b.u8("q")
        b.put(q)
        b.con("%s <= 2" % q, "subscribe.qos%d" % i, ("InvalidQos", q))
        b.chk("p.topics.len() == %d && eq_bytes(p.topics[%d].0.as_bytes(), &%s) && p.topics[%d].1 as u8 == %s" % (len(lens), i, f, i, q), "subscribe.topic%d" % i)
        items.append("(mp::TopicFilter::try_from(%s).unwrap(), mp::QoS::from_u8(%s).unwrap())" % (s_of(f), q))
    ctor = "mp::v3::Packet::Subscribe(mp::v3::Subscribe { pid: mp::Pid::try_from(%s).unwrap(), topics: vec![%s] })" % (pid, ", ".join(items))
    return Shape("v3", "Subscribe", "subscribe_" + "_".join(map(str, lens)) if lens else "subscribe_none", 0x82, b, "mp::v3::Packet::Subscribe(p)", ctor if lens else None)


def v3_suback(n=1):
    b = B("v3")
    pid = _pid(b, "suback.pid")
    b.chk("p.pid.value() == %s" % pid, "suback.pid")
    b.chk("p.topics.len() == %d" % n, "suback.count")
    items = []
    for i in range(n):
        c = b.u8("rc")
        b.put(c)
        # 3.9.3: 0x00, 0x01, 0x02 = granted QoS, 0x80 = failure
        b.con("(%s <= 2 || %s == 0x80)" % (c, c), "suback.code%d" % i, ("InvalidQos", c))
        b.chk("v3_suback_code(p.topics[%d]) == %s" % (i, c), "suback.code%d" % i)
        items.append("v3_suback_from(%s)" % c)
    ctor = "mp::v3::Packet::Suback(mp::v3::Suback { pid: mp::Pid::try_from(%s).unwrap(), topics: vec![%s] })" % (pid, ", ".join(items))
    return Shape("v3", "Suback", "suback_%d" % n, 0x90, b, "mp::v3::Packet::Suback(p)", ctor)


def v3_unsubscribe(lens=(1,)):
    b = B("v3")
    pid = _pid(b, "unsubscribe.pid")
    b.chk("p.pid.value() == %s" % pid, "unsubscribe.pid")
    if not lens:
        b.con("false", "unsubscribe.empty", ("EmptySubscription",))
    items = []
    for i, k in enumerate(lens):
        f = b.topic_filter(k, "tf", "unsubscribe.filter%d" % i)
        b.chk("p.topics.len() == %d && eq_bytes(p.topics[%d].as_bytes(), &%s)" % (len(lens), i, f), "unsubscribe.topic%d" % i)
        items.append("mp::TopicFilter::try_from(%s).unwrap()" % s_of(f))
    ctor = "mp::v3::Packet::Unsubscribe(mp::v3::Unsubscribe { pid: mp::Pid::try_from(%s).unwrap(), topics: vec![%s] })" % (pid, ", ".join(items))
    return Shape("v3", "Unsubscribe", "unsubscribe_" + "_".join(map(str, lens)) if lens else "unsubscribe_none", 0xA2, b, "mp::v3::Packet::Unsubscribe(p)", ctor if lens else None)


def _empty(fam, typ, extra):
    """PINGREQ / PINGRESP / v3 DISCONNECT: no variable header, no payload (remaining length 0).
    extra > 0: a frame of that type that declares (and carries) `extra` body bytes -- malformed."""
    b = B(fam)
    if extra:
        junk = b.arr(extra, "junk")
        b.put_arr(junk, extra)
        b.con("false", "%s.body_not_empty" % typ.lower(), ("InvalidRemainingLength",))
    name = typ.lower() + ("_extra%d" % extra if extra else "")
    return Shape(fam, typ, name, TYPE_NIBBLE[typ] << 4, b, "mp::%s::Packet::%s" % (fam, typ), "mp::%s::Packet::%s" % (fam, typ))


def v3_empty(typ, extra=0):
    return _empty("v3", typ, extra)


# ---- v5 ------------------------------------------------------------------------------------

def v5_connect(flags=0x02, cid_len=1, plist=(), wt_len=1, wp_len=1, wprops=(), user_len=1, pw_len=1):
    b = B("v5")
    will, user, pw = bool(flags & 4), bool(flags & 0x80), bool(flags & 0x40)
    wq = (flags >> 3) & 3
    fl, ka = _connect_common(b, "v5", flags, b"MQTT", 5)
    pctor, _ = props(b, "Connect", list(plist), "p.properties")
    cid = b.string(cid_len, "cid", "connect.client_id")
    b.chk("p.protocol == mp::Protocol::V500", "connect.protocol")
    b.chk("p.clean_start == %s" % str(bool(flags & 2)).lower(), "connect.clean_start")
    b.chk("p.keep_alive == %s" % ka, "connect.keep_alive")
    b.chk("eq_bytes(p.client_id.as_bytes(), &%s)" % cid, "connect.client_id")
    wctor = "None"
    if will:
        b.con("true" if wq != 3 else "false", "connect.will_qos", ("InvalidQos", "3"))
        start = len(b.checks)
        wpctor, _ = props(b, "Will", list(wprops), "w.properties")
        wt = b.topic_name(wt_len, "wt", "connect.will_topic")
        wp = b.binary(wp_len, "wp")
        will_checks = b.checks[start:]
        del b.checks[start:]
        if "Will" in b.pfi:
            # 3.1.3.2.3: payload format indicator 1 -> the will payload is UTF-8
            b.con("(%s != 1 || utf8_model(&%s))" % (b.pfi["Will"], wp), "connect.will_payload_format", ("InvalidPayloadFormat",), "utf8", wp)
            if b.pfi["Will"] == "1u8":
                b.utf8.append(wp)
                b.rlen[wp] = wp_len
            elif b.pfi["Will"] != "0u8":
                b.notes.append("symbolic will PFI: utf8 call order is path dependent")
        inner = " && ".join("(%s)" % c for c, _ in will_checks) or "true"
        b.chk("p.last_will.is_some()", "connect.will_present")
        b.chk("p.last_will.as_ref().map(|w| w.qos as u8 == %d && w.retain == %s && eq_bytes(w.topic_name.as_bytes(), &%s) && eq_bytes(w.payload.as_ref(), &%s) && %s) == Some(true)"
              % (wq, str(bool(flags & 0x20)).lower(), wt, wp, inner), "connect.will_fields")
        wctor = ("Some(mp::v5::LastWill { qos: mp::QoS::from_u8(%d).unwrap(), retain: %s, properties: %s, topic_name: mp::TopicName::try_from(%s).unwrap(), payload: Bytes::copy_from_slice(&%s) })"
                 % (wq if wq != 3 else 0, str(bool(flags & 0x20)).lower(), wpctor, s_of(wt), wp))
    else:
        b.con("true" if wq == 0 else "false", "connect.will_qos_without_will", ("InvalidConnectFlags", fl))
        b.chk("p.last_will.is_none()", "connect.will_absent")
    uctor = "None"
    if user:
        u = b.string(user_len, "un", "connect.username")
        b.chk("p.username.as_ref().map(|x| eq_bytes(x.as_bytes(), &%s)) == Some(true)" % u, "connect.username")
        uctor = "Some(%s)" % arc_s(u)
    else:
        b.chk("p.username.is_none()", "connect.username_absent")
    pwctor = "None"
    if pw:
        pwa = b.binary(pw_len, "pw")
        b.chk("p.password.as_ref().map(|x| eq_bytes(x.as_ref(), &%s)) == Some(true)" % pwa, "connect.password")
        pwctor = "Some(Bytes::copy_from_slice(&%s))" % pwa
    else:
        b.chk("p.password.is_none()", "connect.password_absent")
    ctor = ("mp::v5::Packet::Connect(mp::v5::Connect { protocol: mp::Protocol::V500, clean_start: %s, keep_alive: %s, properties: %s, client_id: %s, last_will: %s, username: %s, password: %s })"
            % (str(bool(flags & 2)).lower(), ka, pctor, arc_s(cid), wctor, uctor, pwctor))
    canonical = (flags & 1 == 0) and (will or (flags & 0x38) == 0) and wq != 3
    name = "connect_f%02x_c%d%s%s%s%s" % (flags, cid_len, pl_name(plist), ("_w%d_%d%s" % (wt_len, wp_len, pl_name(wprops))) if will else "",
                                         "_u%d" % user_len if user else "", "_p%d" % pw_len if pw else "")
    return Shape("v5", "Connect", name, 0x10, b, "mp::v5::Packet::Connect(p)", ctor if canonical else None, canonical)


def pl_name(plist):
    if not plist:
        return ""
    out = []
    for pid, l in plist:
        if pid == "raw":
            out.append("raw%02x" % l)
            continue
        s = "%02x" % pid
        if isinstance(l, tuple):
            s += "l%d_%d" % l
        elif l is not None and PROPS[pid][1] in ("str", "bin"):
            s += "l%d" % l
        elif PROPS[pid][1] == "varint":
            s += "v%d" % (l if isinstance(l, int) else 1)
        out.append(s)
    return "_x" + "_".join(out)


def _reason(b, typ, key, layout_zero=None):
    """reason code byte. layout_zero: None = any table value is the same layout;
    True = the shape is 'reason == 0x00'; False = 'reason != 0x00' (layout-deciding, R3)"""
    rc = b.u8("rc")
    b.put(rc)
    b.con(in_table(rc, REASONS[typ]), key + ".reason", ("InvalidReasonCode", typ, rc))
    if layout_zero is True:
        b.assumes.append("%s == 0" % rc)
    elif layout_zero is False:
        b.assumes.append("%s != 0" % rc)
    b.chk("p.reason_code as u8 == %s" % rc, key + ".reason")
    return rc


def v5_connack(plist=(), pd=0):
    b = B("v5")
    f = b.u8("sp")
    b.put(f)
    b.con("%s <= 1" % f, "connack.flags", ("InvalidConnackFlags", f))
    rc = _reason(b, "Connack", "connack")
    pctor, _ = props(b, "Connack", list(plist), "p.properties", pd)
    b.chk("p.session_present == (%s == 1)" % f, "connack.session_present")
    ctor = "mp::v5::Packet::Connack(mp::v5::Connack { session_present: %s == 1, reason_code: mp::v5::ConnectReasonCode::from_u8(%s).unwrap(), properties: %s })" % (f, rc, pctor)
    return Shape("v5", "Connack", "connack" + pl_name(plist) + ("_pd%+d" % pd if pd else "").replace("+", "p").replace("-", "m"), 0x20, b, "mp::v5::Packet::Connack(p)", ctor)


def v5_publish(qos=0, tl=1, pl=1, plist=(), dup=False, retain=False):
    b = B("v5")
    t, pid, qp = _publish_head(b, "v5", qos, tl, dup, retain)
    pctor, _ = props(b, "Publish", list(plist), "p.properties")
    pay = b.arr(pl, "pay")
    b.put_arr(pay, pl)
    b.chk("eq_bytes(p.payload.as_ref(), &%s)" % pay, "publish.payload")
    if "Publish" in b.pfi:
        # 3.3.2.3.2: payload format indicator 1 -> the payload is UTF-8
        if pl > 0:
            b.con("(%s != 1 || utf8_model(&%s))" % (b.pfi["Publish"], pay), "publish.payload_format", ("InvalidPayloadFormat",), "utf8", pay)
            if b.pfi["Publish"] == "1u8":
                b.utf8.append(pay)
                b.rlen[pay] = pl
            elif b.pfi["Publish"] != "0u8":
                b.notes.append("symbolic PFI")
    ctrl = 0x30 | (8 if dup else 0) | (qos << 1) | (1 if retain else 0)
    ctor = ("mp::v5::Packet::Publish(mp::v5::Publish { dup: %s, retain: %s, qos_pid: %s, topic_name: mp::TopicName::try_from(%s).unwrap(), payload: Bytes::copy_from_slice(&%s), properties: %s })"
            % (str(dup).lower(), str(retain).lower(), qp, s_of(t), pay, pctor))
    name = "publish_q%d_t%d_p%d%s%s%s" % (qos, tl, pl, pl_name(plist), "_dup" if dup else "", "_ret" if retain else "")
    return Shape("v5", "Publish", name, ctrl, b, "mp::v5::Packet::Publish(p)", ctor)


def v5_ack(typ, form="short", plist=(), zero=None, pd=0):
    """PUBACK/PUBREC/PUBREL/PUBCOMP. form: short (pid) | medium (pid, reason) | long (pid, reason, props)"""
    b = B("v5")
    pid = _pid(b, typ.lower() + ".pid")
    b.chk("p.pid.value() == %s" % pid, typ.lower() + ".pid")
    st = PROPS_STRUCT[typ]
    canonical = True
    if form == "short":
        b.chk("p.reason_code as u8 == 0", typ.lower() + ".reason_default")
        b.chk("p.properties == mp::v5::%s::default()" % st, typ.lower() + ".props_default")
        ctor = "mp::v5::Packet::%s(mp::v5::%s { pid: mp::Pid::try_from(%s).unwrap(), reason_code: mp::v5::%s::from_u8(0).unwrap(), properties: Default::default() })" % (typ, typ, pid, REASON_ENUM[typ])
    elif form == "medium":
        rc = _reason(b, typ, typ.lower(), zero)
        b.chk("p.properties == mp::v5::%s::default()" % st, typ.lower() + ".props_default")
        ctor = "mp::v5::Packet::%s(mp::v5::%s { pid: mp::Pid::try_from(%s).unwrap(), reason_code: mp::v5::%s::from_u8(%s).unwrap(), properties: Default::default() })" % (typ, typ, pid, REASON_ENUM[typ], rc)
        canonical = zero is False
    else:
        rc = _reason(b, typ, typ.lower(), zero)
        pctor, _ = props(b, typ, list(plist), "p.properties", pd)
        ctor = "mp::v5::Packet::%s(mp::v5::%s { pid: mp::Pid::try_from(%s).unwrap(), reason_code: mp::v5::%s::from_u8(%s).unwrap(), properties: %s })" % (typ, typ, pid, REASON_ENUM[typ], rc, pctor)
        canonical = len(plist) > 0
    ctrl = (TYPE_NIBBLE[typ] << 4) | FIXED_FLAGS.get(typ, 0)
    name = "%s_%s%s%s%s" % (typ.lower(), form, {None: "", True: "_rc0", False: "_rcnz"}[zero], pl_name(plist), ("_pd%+d" % pd if pd else "").replace("+", "p").replace("-", "m"))
    return Shape("v5", typ, name, ctrl, b, "mp::v5::Packet::%s(p)" % typ, ctor, canonical)


def _sub_options(b, i):
    o = b.u8("opt")
    b.put(o)
    # 3.8.3.1: bits 0-1 QoS (3 is malformed), bit 2 NL, bit 3 RAP, bits 4-5 retain handling (3 malformed), bits 6-7 reserved 0
    b.con("%s & 0xC0 == 0" % o, "subscribe.options%d.reserved" % i, ("InvalidSubscriptionOption", o))
    b.con("%s & 3 != 3" % o, "subscribe.options%d.qos" % i, ("InvalidSubscriptionOption", o))
    b.con("(%s >> 4) & 3 != 3" % o, "subscribe.options%d.retain_handling" % i, ("InvalidSubscriptionOption", o))
    return o


def v5_subscribe(lens=(1,), plist=(), pd=0):
    b = B("v5")
    pid = _pid(b, "subscribe.pid")
    b.chk("p.pid.value() == %s" % pid, "subscribe.pid")
    pctor, _ = props(b, "Subscribe", list(plist), "p.properties", pd)
    if not lens:
        b.con("false", "subscribe.empty", ("EmptySubscription",))
    items = []
    for i, k in enumerate(lens):
        f = b.topic_filter(k, "tf", "subscribe.filter%d" % i)
        o = _sub_options(b, i)
        b.chk("p.topics.len() == %d && eq_bytes(p.topics[%d].0.as_bytes(), &%s)" % (len(lens), i, f), "subscribe.topic%d" % i)
        b.chk("p.topics[%d].1.max_qos as u8 == %s & 3 && p.topics[%d].1.no_local == (%s & 4 != 0) && p.topics[%d].1.retain_as_published == (%s & 8 != 0) && p.topics[%d].1.retain_handling as u8 == (%s >> 4) & 3"
              % (i, o, i, o, i, o, i, o), "subscribe.options%d" % i)
        items.append("(mp::TopicFilter::try_from(%s).unwrap(), mp::v5::SubscriptionOptions { max_qos: mp::QoS::from_u8(%s & 3).unwrap(), no_local: %s & 4 != 0, retain_as_published: %s & 8 != 0, retain_handling: mp::v5::RetainHandling::from_u8((%s >> 4) & 3).unwrap() })"
                     % (s_of(f), o, o, o, o))
    ctor = "mp::v5::Packet::Subscribe(mp::v5::Subscribe { pid: mp::Pid::try_from(%s).unwrap(), properties: %s, topics: vec![%s] })" % (pid, pctor, ", ".join(items))
    name = ("subscribe_" + "_".join(map(str, lens)) if lens else "subscribe_none") + pl_name(plist) + ("_pdm%d" % -pd if pd < 0 else "")
    return Shape("v5", "Subscribe", name, 0x82, b, "mp::v5::Packet::Subscribe(p)", ctor if lens else None)


def v5_codes(typ, n=1, plist=()):
    """SUBACK / UNSUBACK"""
    b = B("v5")
    pid = _pid(b, typ.lower() + ".pid")
    b.chk("p.pid.value() == %s" % pid, typ.lower() + ".pid")
    pctor, _ = props(b, typ, list(plist), "p.properties")
    b.chk("p.topics.len() == %d" % n, typ.lower() + ".count")
    items = []
    for i in range(n):
        c = b.u8("rc")
        b.put(c)
        b.con(in_table(c, REASONS[typ]), "%s.code%d" % (typ.lower(), i), ("InvalidReasonCode", typ, c))
        b.chk("p.topics[%d] as u8 == %s" % (i, c), "%s.code%d" % (typ.lower(), i))
        items.append("mp::v5::%s::from_u8(%s).unwrap()" % (REASON_ENUM[typ], c))
    ctor = "mp::v5::Packet::%s(mp::v5::%s { pid: mp::Pid::try_from(%s).unwrap(), properties: %s, topics: vec![%s] })" % (typ, typ, pid, pctor, ", ".join(items))
    ctrl = TYPE_NIBBLE[typ] << 4
    return Shape("v5", typ, "%s_%d%s" % (typ.lower(), n, pl_name(plist)), ctrl, b, "mp::v5::Packet::%s(p)" % typ, ctor)


def v5_unsubscribe(lens=(1,), plist=(), pd=0, nonmin=False):
    b = B("v5")
    pid = _pid(b, "unsubscribe.pid")
    b.chk("p.pid.value() == %s" % pid, "unsubscribe.pid")
    pctor, _ = props(b, "Unsubscribe", list(plist), "p.properties", pd, nonmin)
    if not lens:
        b.con("false", "unsubscribe.empty", ("EmptySubscription",))
    items = []
    for i, k in enumerate(lens):
        f = b.topic_filter(k, "tf", "unsubscribe.filter%d" % i)
        b.chk("p.topics.len() == %d && eq_bytes(p.topics[%d].as_bytes(), &%s)" % (len(lens), i, f), "unsubscribe.topic%d" % i)
        items.append("mp::TopicFilter::try_from(%s).unwrap()" % s_of(f))
    ctor = "mp::v5::Packet::Unsubscribe(mp::v5::Unsubscribe { pid: mp::Pid::try_from(%s).unwrap(), properties: %s, topics: vec![%s] })" % (pid, pctor, ", ".join(items))
    name = ("unsubscribe_" + "_".join(map(str, lens)) if lens else "unsubscribe_none") + pl_name(plist) + ("_pdm%d" % -pd if pd < 0 else "") + ("_nonmin" if nonmin else "")
    return Shape("v5", "Unsubscribe", name, 0xA2, b, "mp::v5::Packet::Unsubscribe(p)", ctor if lens and not nonmin else None, canonical=not nonmin)


def v5_disconnect(form="empty", plist=(), zero=None):
    """form: empty (rem 0) | code (rem 1) | long (reason + props)"""
    b = B("v5")
    canonical = True
    if form == "empty":
        b.chk("p.reason_code as u8 == 0", "disconnect.reason_default")
        b.chk("p.properties == mp::v5::DisconnectProperties::default()", "disconnect.props_default")
        ctor = "mp::v5::Packet::Disconnect(mp::v5::Disconnect { reason_code: mp::v5::DisconnectReasonCode::from_u8(0).unwrap(), properties: Default::default() })"
    elif form == "code":
        rc = _reason(b, "Disconnect", "disconnect", zero)
        b.chk("p.properties == mp::v5::DisconnectProperties::default()", "disconnect.props_default")
        ctor = "mp::v5::Packet::Disconnect(mp::v5::Disconnect { reason_code: mp::v5::DisconnectReasonCode::from_u8(%s).unwrap(), properties: Default::default() })" % rc
        canonical = zero is False
    else:
        rc = _reason(b, "Disconnect", "disconnect", zero)
        pctor, _ = props(b, "Disconnect", list(plist), "p.properties")
        ctor = "mp::v5::Packet::Disconnect(mp::v5::Disconnect { reason_code: mp::v5::DisconnectReasonCode::from_u8(%s).unwrap(), properties: %s })" % (rc, pctor)
        canonical = len(plist) > 0
    name = "disconnect_%s%s%s" % (form, {None: "", True: "_rc0", False: "_rcnz"}[zero], pl_name(plist))
    return Shape("v5", "Disconnect", name, 0xE0, b, "mp::v5::Packet::Disconnect(p)", ctor, canonical)


def v5_auth(form="empty", plist=(), zero=None):
    b = B("v5")
    canonical = True
    if form == "empty":
        b.chk("p.reason_code as u8 == 0", "auth.reason_default")
        b.chk("p.properties == mp::v5::AuthProperties::default()", "auth.props_default")
        ctor = "mp::v5::Packet::Auth(mp::v5::Auth { reason_code: mp::v5::AuthReasonCode::from_u8(0).unwrap(), properties: Default::default() })"
    elif form == "code":
        # 3.15.2.1: reason code and property length may only be omitted together (remaining length 0);
        # a remaining length of 1 leaves the property length missing
        rc = _reason(b, "Auth", "auth", zero)
        b.con("false", "auth.missing_property_length", ("InvalidRemainingLength",))
        ctor = None
        canonical = False
    else:
        rc = _reason(b, "Auth", "auth", zero)
        pctor, _ = props(b, "Auth", list(plist), "p.properties")
        ctor = "mp::v5::Packet::Auth(mp::v5::Auth { reason_code: mp::v5::AuthReasonCode::from_u8(%s).unwrap(), properties: %s })" % (rc, pctor)
        canonical = not (zero is True and len(plist) == 0) and zero is not None
    name = "auth_%s%s%s" % (form, {None: "", True: "_rc0", False: "_rcnz"}[zero], pl_name(plist))
    return Shape("v5", "Auth", name, 0xF0, b, "mp::v5::Packet::Auth(p)", ctor, canonical)


def v5_empty(typ, extra=0):
    return _empty("v5", typ, extra)


# ---------------------------------------------------------------------------------------
# Rust emission
# ---------------------------------------------------------------------------------------

COMMON_ERRS = {"InvalidString", "ZeroPid", "InvalidQos", "InvalidConnectFlags", "InvalidConnackFlags", "InvalidConnectReturnCode",
               "InvalidTopicName", "InvalidTopicFilter", "EmptySubscription", "InvalidRemainingLength", "InvalidHeader",
               "InvalidVarByteInt", "InvalidProtocol", "UnexpectedProtocol"}


def err_pat(fam, err):
    """Rust pattern (used inside matches!(&e, ..)) for the documented error of a malformation"""
    k = err[0]
    if k in COMMON_ERRS:
        if k in ("InvalidQos", "InvalidConnectFlags", "InvalidConnackFlags", "InvalidConnectReturnCode"):
            inner = "mp::Error::%s(x) if *x == %s" % (k, err[1])
            if fam == "v5":
                return "mp::v5::ErrorV5::Common(mp::Error::%s(x)) if *x == %s" % (k, err[1])
            return inner
        if k in ("InvalidTopicName", "InvalidTopicFilter"):
            inner = "mp::Error::%s(_)" % k
        else:
            inner = "mp::Error::%s" % k
        return "mp::v5::ErrorV5::Common(%s)" % inner if fam == "v5" else inner
    assert fam == "v5", err
    if k == "InvalidReasonCode":
        return "mp::v5::ErrorV5::InvalidReasonCode(mp::v5::PacketType::%s, x) if *x == %s" % (err[1], err[2])
    if k == "InvalidProperty":
        if err[1] == "Will":
            return "mp::v5::ErrorV5::InvalidWillProperty(mp::v5::PropertyId::%s)" % err[2]
        return "mp::v5::ErrorV5::InvalidProperty(mp::v5::PacketType::%s, mp::v5::PropertyId::%s)" % (err[1], err[2])
    if k == "DuplicatedProperty":
        return "mp::v5::ErrorV5::DuplicatedProperty(mp::v5::PropertyId::%s)" % err[1]
    if k == "InvalidByteProperty":
        return "mp::v5::ErrorV5::InvalidByteProperty(mp::v5::PropertyId::%s, x) if *x == %s" % (err[1], err[2])
    if k == "InvalidSubscriptionOption":
        return "mp::v5::ErrorV5::InvalidSubscriptionOption(x) if *x == %s" % err[1]
    if k == "InvalidPropertyId":
        return "mp::v5::ErrorV5::InvalidPropertyId(x) if *x == %s" % err[1]
    if k in ("InvalidPayloadFormat", "InvalidResponseTopic"):
        return "mp::v5::ErrorV5::%s" % k
    if k == "InvalidPropertyLength":
        return "mp::v5::ErrorV5::InvalidPropertyLength(x) if *x == %s" % err[1]
    raise ValueError(err)


STUB_FROM_ELEM = "#[kani::stub(alloc::vec::from_elem, crate::model::from_elem_fixed)]"

STUBS_DECODE = [
    "#[kani::stub(<mqtt_proto_sync::Error as std::convert::From<std::io::Error>>::from, crate::model::from_io_eof_stub)]",
    "#[kani::stub(<std::io::Error as std::string::ToString>::to_string, crate::model::io_to_string_stub)]",
    "#[kani::stub(simdutf8::basic::from_utf8, crate::model::from_utf8_class_stub)]",
    "#[kani::stub(mqtt_proto_sync::TopicName::is_invalid, crate::model::topic_name_class_stub)]",
    "#[kani::stub(mqtt_proto_sync::TopicFilter::is_invalid, crate::model::topic_filter_class_stub)]",
]


# C07 prefix scenarios: the valid-class verdicts with an assertion in place of the assumption (model.rs)
STUBS_PREFIX = STUBS_DECODE[:2] + [
    "#[kani::stub(simdutf8::basic::from_utf8, crate::model::from_utf8_complete_stub)]",
    "#[kani::stub(mqtt_proto_sync::TopicName::is_invalid, crate::model::topic_name_complete_stub)]",
    "#[kani::stub(mqtt_proto_sync::TopicFilter::is_invalid, crate::model::topic_filter_complete_stub)]",
]


def stubs_for(bad):
    """Kani stub attributes of a decode scenario: the valid-class stubs, with the validator of the
    invalid-class field (marked by its length BAD_LEN = 3) swapped for the length-marked stub"""
    sel = {"utf8": "from_utf8_class_stub", "name": "topic_name_class_stub", "filter": "topic_filter_class_stub"}
    if bad is not None:
        sel[bad[0]] = {"utf8": "from_utf8_bad_len3", "name": "topic_name_bad_len3", "filter": "topic_filter_bad_len3"}[bad[0]]
    return [
        "#[kani::stub(<mqtt_proto_sync::Error as std::convert::From<std::io::Error>>::from, crate::model::from_io_eof_stub)]",
        "#[kani::stub(<std::io::Error as std::string::ToString>::to_string, crate::model::io_to_string_stub)]",
        "#[kani::stub(simdutf8::basic::from_utf8, crate::model::%s)]" % sel["utf8"],
        "#[kani::stub(mqtt_proto_sync::TopicName::is_invalid, crate::model::%s)]" % sel["name"],
        "#[kani::stub(mqtt_proto_sync::TopicFilter::is_invalid, crate::model::%s)]" % sel["filter"],
    ]


def bad_ok(sh, bad):
    """the invalid-class field has length 3 and no other field decided by the same validator has"""
    regs = {"utf8": sh.b.utf8, "name": sh.b.names, "filter": sh.b.filters}[bad[0]]
    if bad[1] >= len(regs):
        return False
    lens = [sh.b.rlen.get(r) for r in regs]
    return lens[bad[1]] == 3 and sum(1 for l in lens if l == 3) == 1


class Module:
    """one generated scenario module g_<name>.rs"""

    def __init__(self, name, doc):
        self.name = name
        self.doc = doc
        self.fns = []
        self.entries = []     # (attrs, harness name, witness size, fn name)
        self.meta = []        # descriptions for evidence

    def add(self, fn_name, code, wsize, unwind, stubs=STUBS_DECODE, meta=None):
        assert fn_name not in [e[3] for e in self.entries], fn_name
        code = code.replace("pub fn %s(" % fn_name, "pub fn f_%s(" % fn_name, 1)
        self.fns.append(code)
        attrs = ["#[kani::unwind(%d)]" % unwind] + list(stubs)
        self.entries.append((attrs, fn_name, max(wsize, 1), "f_" + fn_name))
        self.meta.append(meta or {"name": fn_name})

    def write(self, srcdir, chunk=12):
        """split into sub-modules of at most `chunk` harnesses (name_00, name_01, ...): Kani's code
        generation is sequential per crate build (~2.4 s per harness), so the driver builds the
        sub-modules in parallel cargo invocations"""
        import os
        n = 0
        for k in range(0, len(self.entries), chunk):
            name = "%s_%02d" % (self.name, n)
            n += 1
            out = ["//! %s\n//! GENERATED by tools/mqttgen.py on every run -- do not edit.\n" % self.doc,
                   "#![allow(unused_variables, unused_mut, unused_parens, non_snake_case)]",
                   "use crate::gh::*;", "use crate::fe;", ""]
            out += self.fns[k:k + chunk]
            out.append("scenarios! {")
            for attrs, hn, w, fn in self.entries[k:k + chunk]:
                for a in attrs:
                    out.append("    " + a)
                out.append("    %s [%d] => %s;" % (hn, w, fn))
            out.append("}")
            with open(os.path.join(srcdir, name + ".rs"), "w") as f:
                f.write("\n".join(out) + "\n")
        import json
        with open(os.path.join(srcdir, self.name + ".meta.json"), "w") as f:
            json.dump(self.meta, f)


def frame_decl(sh, var="frame"):
    cells = ["0x%02x" % x for x in sh.header] + sh.b.cells
    return "let %s: [u8; %d] = [%s];" % (var, len(cells), ", ".join(cells))


def max_loop(sh):
    """largest concrete trip count any loop of the scenario or the decoder needs for this shape"""
    import re
    m = 8
    for d in sh.b.draws:
        r = re.search(r"\[u8; (\d+)\]", d)
        if r:
            m = max(m, int(r.group(1)))
    return m


def emit_dec(sh, prop="C04", bad=None, frontend="poll", extra_checks=True):
    """decode-direction scenario for one shape through the strict poll front-end.
    bad = None (every validator call in its 'valid' class) | ('utf8'|'name'|'filter', index)"""
    b = sh.b
    fam = sh.fam
    L = sh.total_len
    H = len(sh.header)
    BL = sh.body_len
    fn = "%s_%s__dec%s" % (fam, sh.name, "" if bad is None else "_bad_%s%d" % bad)
    lines = ["pub fn %s(s: &mut Src) {" % fn]
    lines += ["    " + d for d in b.draws]
    lines += ["    " + d for d in b.pre]
    for a in b.assumes:
        # the ASCII restriction of filter content is lifted for the region whose UTF-8 validity is the subject
        if bad is not None and bad[0] == "utf8" and bad[1] < len(b.utf8) and a == "ascii(&%s)" % b.utf8[bad[1]]:
            continue
        lines.append("    vassume!(%s);" % a)
    lines.append("    let body: [u8; %d] = [%s];" % (BL, ", ".join(b.cells)))
    cls = {"utf8": "usize::MAX", "name": "usize::MAX", "filter": "usize::MAX"}
    if bad is not None:
        cls[bad[0]] = str(bad[1])
    lines.append("    set_classes(%s, %s, %s);" % (cls["utf8"], cls["name"], cls["filter"]))
    regions = {"utf8": b.utf8, "name": b.names, "filter": b.filters}

    def can_fail(i):
        expr, key, err, kind, region = b.cons[i]
        nfalse = sum(1 for c in b.cons if c[0] == "false")
        if kind == "scalar":
            return bad is None and nfalse == 0
        if kind == "const":
            return expr == "false" and bad is None and nfalse == 1
        return bad is not None and bad[0] == kind and bad[1] < len(regions[kind]) and regions[kind][bad[1]] == region
    for i, (expr, key, err, kind, region) in enumerate(b.cons):
        lines.append("    let c%d: bool = %s;" % (i, expr))
    ok = " && ".join("c%d" % i for i in range(len(b.cons))) or "true"
    lines.append("    let ok: bool = %s;" % ok)
    lines.append("    let (r, used) = fe::%s::strict(0x%02x, %d, %d, &body);" % (fam, sh.ctrl, BL, H))
    # native replay only: the real poll decoder (common/poll.rs, real tokio) must agree with the composition
    lines.append("    #[cfg(not(kani))]")
    lines.append("    {")
    lines.append("        " + frame_decl(sh))
    lines.append("        let (pr, pused, preq) = fe::%s::poll_all(&frame);" % fam)
    lines.append('        vassert!(pr.is_ok() == r.is_ok(), "%s|native.poll_vs_composition.accept|the real poll decoder and the composed strict decoder disagree on acceptance");' % prop)
    lines.append("        if let (Ok((pt, _, pp)), Ok((t, p))) = (&pr, &r) {")
    lines.append('            vassert!(pp == p && *pt == *t && pused == *t, "%s|native.poll_vs_composition.value|the real poll decoder and the composed strict decoder return different packets/sizes");' % prop)
    lines.append("        }")
    lines.append("        if let (Err(pe), Err(e)) = (&pr, &r) {")
    lines.append('            vassert!(format!("{:?}", pe) == format!("{:?}", e), "%s|native.poll_vs_composition.error|the real poll decoder and the composed strict decoder return different errors");' % prop)
    lines.append("        }")
    lines.append("        std::mem::forget(pr);")
    lines.append("    }")
    lines.append("    match r {")
    lines.append("        Ok((total, pkt)) => {")
    for i, (expr, key, err, kind, region) in enumerate(b.cons):
        lines.append('            vassert!(c%d, "%s|accepts.%s|the strict decoder accepted a frame that violates: %s");' % (i, prop, key, key))
    lines.append('            vassert!(total == %d, "%s|poll.total|reported total size differs from the frame length");' % (L, prop))
    lines.append('            vassert!(used == %d, "%s|body.consumed|body bytes consumed differ from the remaining length");' % (BL, prop))
    lines.append("            match &pkt {")
    if "(p)" in sh.variant:
        lines.append("                %s => {" % sh.variant)
        for expr, key in b.checks:
            lines.append('                    vassert!(%s, "%s|field.%s|decoded field differs from the value the specification assigns: %s");' % (expr, prop, key, key))
        lines.append("                }")
    else:
        lines.append("                %s => {}" % sh.variant)
    lines.append('                _ => { vassert!(false, "%s|variant|decoder returned a different packet type"); }' % prop)
    lines.append("            }")
    if bad is None and not any(c[0] == "false" for c in b.cons):
        lines.append('            vcover!(true, "accepted");')
    lines.append("            done(pkt);")
    lines.append("        }")
    lines.append("        Err(e) => {")
    lines.append('            vassert!(!ok, "%s|rejects_wellformed.%s|the strict decoder rejected a well-formed frame");' % (prop, sh.typ.lower()))
    # single violated constraint -> documented error
    for i, (expr, key, err, kind, region) in enumerate(b.cons):
        others = " && ".join("c%d" % j for j in range(len(b.cons)) if j != i) or "true"
        lines.append('            if !c%d && %s {' % (i, others))
        lines.append('                vassert!(matches!(&e, %s), "C20|error.%s|wrong error variant for malformation: %s");' % (err_pat(fam, err), key, key))
        if can_fail(i) and bad is None:
            lines.append('                vcover!(true, "rejected: %s");' % key)
        lines.append("            }")
        if can_fail(i) and bad is not None:
            lines.append('            vcover!(!c%d, "rejected: %s");' % (i, key))
    lines.append("            done(e);")
    lines.append("        }")
    lines.append("    }")
    lines.append("}")
    unwind = max(max_loop(sh), 6) + 2
    meta = {"name": fn, "family": fam, "type": sh.typ, "shape": sh.name, "frame_len": L, "class": "all-valid" if bad is None else "%s#%d invalid" % bad,
            "constraints": [c[1] for c in b.cons], "assumes": b.assumes}
    return fn, "\n".join(lines) + "\n", b.wbytes, unwind, meta


STUBS_ENCODE = [
    "#[kani::stub(simdutf8::basic::from_utf8, crate::model::from_utf8_class_stub)]",
    "#[kani::stub(mqtt_proto_sync::TopicName::is_invalid, crate::model::topic_name_class_stub)]",
    "#[kani::stub(mqtt_proto_sync::TopicFilter::is_invalid, crate::model::topic_filter_class_stub)]",
]


def body_ctor(sh):
    """ctor of the body struct (None for packet types without one)"""
    c = sh.ctor
    pre = "mp::%s::Packet::%s(" % (sh.fam, sh.typ)
    if not c.startswith(pre) or sh.fam + sh.typ in ("v3Puback", "v3Pubrec", "v3Pubrel", "v3Pubcomp", "v3Unsuback", "v3Connack"):
        return None
    return c[len(pre):-1]


def emit_enc(sh, prop="C10", want_bytes=True, want_len=True, level="body"):
    """encode-direction scenario: value built from symbolic fields (valid domain assumed) ->
    declared lengths and emitted bytes compared with the spec layout.
    level 'body'  : the body struct as a local, through the streaming encoder (Encodable::encode into an
                    array sink) -- used for every shape;
    level 'packet': Packet::encode / Packet::encode_len (fixed header + glue), used for one small shape per
                    packet type and for the types without a body struct.  (Reading a large value back out of
                    the Packet enum costs symbolic execution an order of magnitude more than the local.)"""
    assert sh.ctor is not None and not sh.malformed_by_shape
    b = sh.b
    fam = sh.fam
    L = sh.total_len
    H = len(sh.header)
    BL = sh.body_len
    bc = body_ctor(sh)
    if bc is None:
        level = "packet"
    fn = "%s_%s__enc%s" % (fam, sh.name, "p" if level == "packet" else "")
    lines = ["pub fn %s(s: &mut Src) {" % fn]
    lines += ["    " + d for d in b.draws]
    lines += ["    " + d for d in b.pre]
    for a in b.assumes + b.enc_assumes:
        lines.append("    vassume!(%s);" % a)
    # the valid domain of the property: every well-formedness constraint holds
    for (expr, key, err, kind, region) in b.cons:
        if expr != "true":
            lines.append("    vassume!(%s);" % expr)
    lines.append("    set_classes(usize::MAX, usize::MAX, usize::MAX);")
    lines.append("    " + frame_decl(sh))
    if level == "body":
        lines.append("    let p = %s;" % bc)
        lines.append("    let mut sink = ArrSink::<%d>::new();" % (BL + 4))
        lines.append("    let r = mp::Encodable::encode(&p, &mut sink);")
        lines.append('    vassert!(r.is_ok(), "%s|body.encode_err|body encoder failed on an infallible sink");' % prop)
        if want_len:
            lines.append('    vassert!(sink.len == %d && !sink.overflow, "%s|body.written.%s|bytes written by the body encoder differ from the specification\'s body size");' % (BL, prop, sh.typ.lower()))
            lines.append('    vassert!(mp::Encodable::encode_len(&p) == %d, "%s|body.encode_len.%s|body encode_len differs from the specification\'s body size (and from the bytes written)");' % (BL, prop, sh.typ.lower()))
        if want_bytes:
            lines.append('    vassert!(sink.len == %d && eq_bytes(&sink.buf[..%d], &frame[%d..]), "%s|body.bytes.%s|bytes written by the body encoder differ from the specification\'s wire image");' % (BL, BL, H, prop, sh.typ.lower()))
        lines.append('    vcover!(true, "encoded");')
        lines.append("    done(r);")
        lines.append("    done(p);")
        lines.append("}")
        unwind = max(max_loop(sh), BL, 6) + 2
        meta = {"name": fn, "family": fam, "type": sh.typ, "shape": sh.name, "frame_len": L, "direction": "encode/body"}
        return fn, "\n".join(lines) + "\n", b.wbytes, unwind, meta
    lines.append("    let pkt = %s;" % sh.ctor)
    if want_len:
        lines.append("    match pkt.encode_len() {")
        lines.append('        Ok(n) => { vassert!(n == %d, "%s|packet.encode_len|Packet::encode_len differs from the size of the wire image the specification prescribes"); }' % (L, prop))
        lines.append('        Err(e) => { vassert!(false, "%s|packet.encode_len_err|Packet::encode_len fails on a valid packet"); done(e); }' % prop)
        lines.append("    }")
    lines.append("    match pkt.encode() {")
    lines.append("        Ok(vb) => {")
    lines.append("            let bytes: &[u8] = vb.as_ref();")
    if want_len:
        lines.append('            vassert!(bytes.len() == %d, "%s|packet.len|number of bytes emitted differs from the specification\'s size (and from encode_len)");' % (L, prop))
        hdr = sh.header
        conds = " && ".join("bytes[%d] == 0x%02x" % (i, x) for i, x in enumerate(hdr))
        lines.append('            vassert!(bytes.len() >= %d && %s, "%s|packet.header|fixed header (control byte, minimal remaining length) wrong");' % (H, conds, prop))
    if want_bytes:
        lines.append('            vassert!(eq_bytes(bytes, &frame), "%s|packet.bytes.%s|emitted bytes differ from the wire image the specification prescribes for these field values");' % (prop, sh.typ.lower()))
    lines.append('            vcover!(true, "encoded");')
    lines.append("            done(vb);")
    lines.append("        }")
    lines.append('        Err(e) => { vassert!(false, "%s|packet.encode_err|Packet::encode fails on a valid packet"); done(e); }' % prop)
    lines.append("    }")
    lines.append("    done(pkt);")
    lines.append("}")
    unwind = max(max_loop(sh), L, 6) + 2
    meta = {"name": fn, "family": fam, "type": sh.typ, "shape": sh.name, "frame_len": L, "direction": "encode/packet"}
    return fn, "\n".join(lines) + "\n", b.wbytes, unwind, meta


def _prelude(sh, fn, assume_valid=False, tail=0, tail_bytes=None):
    b = sh.b
    lines = ["pub fn %s(s: &mut Src) {" % fn]
    lines += ["    " + d for d in b.draws]
    lines += ["    " + d for d in b.pre]
    for a in b.assumes:
        lines.append("    vassume!(%s);" % a)
    if assume_valid:
        for (expr, key, err, kind, region) in b.cons:
            if expr != "true":
                lines.append("    vassume!(%s);" % expr)
    cells = ["0x%02x" % x for x in sh.header] + b.cells
    if tail and tail_bytes is not None:
        # the next packet's first bytes as literal cells (a decoder that over-reads then stays concrete)
        cells += ["0x%02x" % x for x in tail_bytes]
    elif tail:
        lines.append("    let tail: [u8; %d] = s.bytes();" % tail)
        cells += ["tail[%d]" % i for i in range(tail)]
    lines.append("    let frame: [u8; %d] = [%s];" % (len(cells), ", ".join(cells)))
    lines.append("    set_classes(usize::MAX, usize::MAX, usize::MAX);")
    return lines


def emit_agree(sh, tail=2, tail_bytes=None):
    """C06 / C08: the three front-ends on `frame ++ tail` (tail = symbolic bytes of the next packet).
    Packets are compared through the spec-side field checks and errors through a compact code, not
    through the derived `==` (which explores every variant pair of two symbolic-variant values)."""
    fam = sh.fam
    b = sh.b
    L = sh.total_len
    H = len(sh.header)
    BL = sh.body_len
    ec = "err_code3" if fam == "v3" else "err_code5"
    fn = "%s_%s__agree%s" % (fam, sh.name, "_ct" if tail_bytes is not None else "")
    lines = _prelude(sh, fn, tail=tail, tail_bytes=tail_bytes)

    def fields(var, who, ind):
        out = []
        out.append("%smatch %s {" % (ind, var))
        if "(p)" in sh.variant:
            out.append("%s    %s => {" % (ind, sh.variant))
            conj = " && ".join("(%s)" % e for e, _ in b.checks) or "true"
            out.append('%s        vassert!(%s, "C06|%s.fields|%s decoder returns a packet whose fields differ from the bytes (hence from the strict decoder\'s packet)");' % (ind, conj, who, who))
            out.append("%s    }" % ind)
        else:
            out.append("%s    %s => {}" % (ind, sh.variant))
        out.append('%s    _ => { vassert!(false, "C06|%s.variant|%s decoder returns a different packet type"); }' % (ind, who, who))
        out.append("%s}" % ind)
        return out

    lines += [
        "    let (rs, _used) = fe::%s::strict(0x%02x, %d, %d, &frame[%d..%d]);" % (fam, sh.ctrl, BL, H, H, L),
        "    let (ra, ca) = fe::%s::async_all(&frame);" % fam,
        "    let rb = fe::%s::blocking(&frame);" % fam,
        "    // outcome codes: 0 = packet, 100 = incomplete, else = error identity",
        "    let cs: (u8, u32) = match &rs { Ok(_) => (0, 0), Err(e) => %s(e) };" % ec,
        "    let ca_code: (u8, u32) = match &ra { Ok(_) => (0, 0), Err(e) => if e.is_eof() { (100, 0) } else { %s(e) } };" % ec,
        "    let cb: (u8, u32) = match &rb { Ok(Some(_)) => (0, 0), Ok(None) => (100, 0), Err(e) => %s(e) };" % ec,
    ] + ([
        # first obligation of the scenario: Kani cuts a path after a failed assertion, so an obligation that
        # comes after another property's would be masked by it
        '    vassert!(ca_code.0 != 0 && cb.0 != 0, "C16|packet.empty_filter|a SUBSCRIBE/UNSUBSCRIBE carrying an empty topic filter is decoded to a packet by the blocking/async decoder although the constructor rejects the empty filter");',
    ] if b.empty_filter else []) + [
        '    vassert!(ca_code == cb, "C06|blocking_vs_async|the blocking decoder differs from the async decoder with end-of-input mapped to incomplete");',
        "    if cs.0 == 0 {",
        '        vassert!(ca_code.0 == 0 && cb.0 == 0, "C06|strict_accepts.others_reject|the strict decoder accepts but the blocking/async decoders do not return a packet");',
        '        vassert!(ca_code.0 != 0 || ca == %d, "C08|async.consumed|the async decoder consumed bytes of the following packet (or too few)");' % L,
    ] + (['        vcover!(true, "all accept");'] if not sh.malformed_by_shape else []) + [
        "    } else if cs.0 != 1 {",
        '        vassert!(ca_code == cs, "C06|strict_rejects.async_differs|the strict decoder rejects (not a remaining-length mismatch) with an error the async decoder does not report");',
    ] + (['        vcover!(true, "all reject");'] if any((c[3] == "scalar") or (c[0] == "false" and c[2][0] != "InvalidRemainingLength") for c in b.cons) else []) + [
        "    }",
    ] + ([
        # C08 stated on its own, not through the strict decoder's verdict: a frame that satisfies every
        # constraint of the specification, followed by bytes of the next packet, is returned as a packet by
        # the async decoder having consumed exactly the frame (a decoder whose length bookkeeping is off reads
        # into the next packet while the strict composition merely reports a length mismatch)
        "    if %s {" % (" && ".join("(%s)" % c[0] for c in b.cons if c[0] != "true") or "true"),
        '        vassert!(ca_code.0 == 0 && ca == %d, "C08|async.frame_exact|a valid frame followed by further bytes is not returned as a packet by the async decoder having consumed exactly the frame");' % L,
        '        vassert!(cb.0 == 0, "C08|blocking.frame_exact|a valid frame followed by further bytes is not returned as a packet by the blocking decoder");',
        "    }",
    ] if not sh.malformed_by_shape and not b.nonminimal else []) + [
        "    if let Ok((total, ps)) = &rs {",
        '        vassert!(*total == %d, "C08|strict.total|reported total differs from the frame length");' % L,
    ]
    lines += fields("ps", "strict", "        ")
    lines.append("    }")
    lines.append("    if let Ok(pa) = &ra {")
    lines += fields("pa", "async", "        ")
    lines.append("    }")
    lines.append("    if let Ok(Some(pb)) = &rb {")
    lines += fields("pb", "blocking", "        ")
    lines.append("    }")
    lines.append("    done(rs); done(ra); done(rb);")
    lines.append("}")
    unwind = max(max_loop(sh), 6) + 2
    meta = {"name": fn, "family": fam, "type": sh.typ, "shape": sh.name, "frame_len": L, "mode": "front-end agreement, tail=%d" % tail}
    return fn, "\n".join(lines) + "\n", sh.b.wbytes + tail, unwind, meta


def emit_prefix(sh):
    """C07: every strict prefix of a valid encoding is 'incomplete' for blocking and async; the strict
    decoder composition is not involved (it only ever sees complete frames; end of stream inside a frame
    for the poll decoder is C05/C14)"""
    fam = sh.fam
    L = sh.total_len
    fn = "%s_%s__prefix" % (fam, sh.name)
    lines = _prelude(sh, fn, assume_valid=True)
    lines += [
        "    let mut k = 0;",
        "    while k < %d {" % L,
        "        // Packet::decode is decode_async on the slice with (only) an eof error mapped to Ok(None)",
        "        let rb = fe::%s::blocking(&frame[..k]);" % fam,
        '        vassert!(matches!(&rb, Ok(None)), "C07|prefix.blocking|a strict prefix of a valid encoding is not reported as incomplete by the blocking decoder");',
        "        done(rb);",
        "        k += 1;",
        "    }",
        "    let (ra, _) = fe::%s::async_all(&frame[..%d]);" % (fam, L - 1),
        '    vassert!(matches!(&ra, Err(e) if e.is_eof()), "C07|prefix.async|the longest strict prefix of a valid encoding is not an eof error for the async decoder");',
        "    done(ra);",
        "    let rf = fe::%s::blocking(&frame);" % fam,
        '    vassert!(matches!(&rf, Ok(Some(_))), "C07|complete.blocking|the complete valid encoding is not decoded");',
        '    vcover!(true, "all prefixes");',
        "    done(rf);",
        "}",
    ]
    unwind = max(max_loop(sh), L, 6) + 2
    meta = {"name": fn, "family": fam, "type": sh.typ, "shape": sh.name, "frame_len": L, "mode": "every prefix"}
    return fn, "\n".join(lines) + "\n", sh.b.wbytes, unwind, meta


def canonical_body(sh):
    """cells of the canonical re-encoding of the value this shape decodes to, or None when the shape
    itself is canonical (then: the frame body).  Non-canonical spellings the decoders accept:
    PUBACK-family 'medium' with reason 0x00 -> short; 'long' without properties -> medium/short;
    DISCONNECT 'code' with 0x00 / 'long' without properties; AUTH 'long' with 0x00 and no properties."""
    return None


def emit_reenc(sh, prop="C11"):
    """C11: whatever the strict decoder accepts re-encodes (streaming body encoder, reading the value the
    decoder returned) without error to at most the bytes consumed; for canonical shapes to exactly the
    frame body, which the decode scenarios of the same shape show decodes to the same value again."""
    b = sh.b
    fam = sh.fam
    L = sh.total_len
    H = len(sh.header)
    BL = sh.body_len
    fn = "%s_%s__reenc" % (fam, sh.name)
    lines = _prelude(sh, fn)
    lines.append("    let (r, _used) = fe::%s::strict(0x%02x, %d, %d, &frame[%d..]);" % (fam, sh.ctrl, BL, H, H))
    lines.append("    if let Ok((_total, pkt)) = &r {")
    lines.append("        match pkt {")
    lines.append("            %s => {" % sh.variant)
    lines.append("                let mut sink = ArrSink::<%d>::new();" % (BL + 4))
    lines.append("                let w = mp::Encodable::encode(p, &mut sink);")
    lines.append('                vassert!(w.is_ok(), "%s|reencode.error|re-encoding an accepted packet fails");' % prop)
    lines.append('                vassert!(sink.len <= %d && !sink.overflow, "%s|reencode.longer|the re-encoding is longer than the bytes the decoder consumed");' % (BL, prop))
    lines.append('                vassert!(mp::Encodable::encode_len(p) == sink.len, "%s|reencode.encode_len|encode_len of an accepted packet differs from the bytes its encoder writes (Packet::encode would panic in dev / emit a corrupt frame in release)");' % prop)
    if sh.canonical:
        lines.append('                vassert!(sink.len == %d && eq_bytes(&sink.buf[..%d], &frame[%d..]), "%s|reencode.bytes|an accepted canonical frame does not re-encode to itself");' % (BL, BL, H, prop))
    lines.append('                vcover!(true, "re-encoded");')
    lines.append("                done(w);")
    lines.append("            }")
    lines.append("            _ => {}")
    lines.append("        }")
    lines.append("    }")
    lines.append("    done(r);")
    lines.append("}")
    unwind = max(max_loop(sh), BL, 6) + 2
    meta = {"name": fn, "family": fam, "type": sh.typ, "shape": sh.name, "frame_len": L, "mode": "decode then re-encode (body level)", "canonical": sh.canonical}
    return fn, "\n".join(lines) + "\n", b.wbytes, unwind, meta


STUBS_FAULT = [
    "#[kani::stub(<mqtt_proto_sync::Error as std::convert::From<std::io::Error>>::from, crate::model::from_io_kind_stub)]",
    "#[kani::stub(<std::io::Error as std::string::ToString>::to_string, crate::model::io_to_string_stub)]",
    "#[kani::stub(simdutf8::basic::from_utf8, crate::model::from_utf8_class_stub)]",
    "#[kani::stub(mqtt_proto_sync::TopicName::is_invalid, crate::model::topic_name_class_stub)]",
    "#[kani::stub(mqtt_proto_sync::TopicFilter::is_invalid, crate::model::topic_filter_class_stub)]",
]


def emit_fault(sh):
    """C14: a read error injected at every byte position of a valid encoding makes the async decoder
    return an I/O error of that kind (never a packet, a protocol error or 'incomplete')"""
    fam = sh.fam
    L = sh.total_len
    fn = "%s_%s__rdfault" % (fam, sh.name)
    lines = _prelude(sh, fn, assume_valid=True)
    pat = "mp::Error::IoError(k, _)" if fam == "v3" else "mp::v5::ErrorV5::Common(mp::Error::IoError(k, _))"
    lines += [
        "    let mut limit = 0;",
        "    while limit < %d {" % L,
        "        let mut rd = fe::FaultRd { data: &frame, pos: 0, limit, kind: std::io::ErrorKind::ConnectionReset };",
        "        let r = dec!(mp::%s::Packet::decode_async(&mut rd));" % fam,
        '        vassert!(matches!(&r, Err(%s) if *k == std::io::ErrorKind::ConnectionReset), "C14|async_decode.read_error|a read error inside a valid encoding is not surfaced by the async decoder as an I/O error of the same kind");' % pat,
        "        done(r);",
        "        limit += 1;",
        "    }",
        "    let mut rd = fe::FaultRd { data: &frame, pos: 0, limit: %d, kind: std::io::ErrorKind::ConnectionReset };" % L,
        "    let r = dec!(mp::%s::Packet::decode_async(&mut rd));" % fam,
        '    vassert!(r.is_ok(), "C14|async_decode.no_fault|the valid encoding does not decode when no fault is injected");',
        '    vcover!(true, "all fault positions");',
        "    done(r);",
        "}",
    ]
    unwind = max(max_loop(sh), L, 6) + 2
    meta = {"name": fn, "family": fam, "type": sh.typ, "shape": sh.name, "frame_len": L, "mode": "read fault at every position"}
    return fn, "\n".join(lines) + "\n", sh.b.wbytes, unwind, meta
