#!/usr/bin/env python3
"""Driver library: twin regeneration, Kani code generation, parallel CBMC runs,
counterexample extraction, native replay, evidence (DESIGN.md section 3.6)."""
import concurrent.futures
import glob
import hashlib
import json
import os
import re
import resource
import shutil
import subprocess
import sys
import time

VERIF = os.path.dirname(os.path.dirname(os.path.abspath(__file__)))
REPO = os.environ.get("VERIF_REPO", "/repo")
CACHE = os.environ.get("VERIF_CACHE", "/var/tmp/mqtt-verif")
KANI_HOME = os.path.expanduser("~/.kani/kani-0.68.0")
KANI_LIB_C = os.path.join(KANI_HOME, "library/kani/kani_lib.c")
GB = 1024 ** 3

ENV = dict(os.environ, CARGO_NET_OFFLINE="true", CARGO_TERM_COLOR="never")

CBMC_FLAGS = ["--no-malloc-may-fail", "--no-undefined-shift-check", "--no-signed-overflow-check",
              "--nan-check", "--no-self-loops-to-assumptions", "--no-pointer-primitive-check",
              "--object-bits", "16"]
CBMC_TAIL = ["--sat-solver", "cadical", "--slice-formula"]


class Inconclusive(Exception):
    pass


def log(*a):
    print(*a, file=sys.stderr, flush=True)


def sh(cmd, cwd=None, timeout=None, env=None, check=True, capture=True):
    p = subprocess.run(cmd, cwd=cwd, timeout=timeout, env=env or ENV,
                       stdout=subprocess.PIPE if capture else None,
                       stderr=subprocess.STDOUT if capture else None, text=True)
    if check and p.returncode != 0:
        raise Inconclusive("command failed (%d): %s\n%s" % (p.returncode, " ".join(cmd)[:300], (p.stdout or "")[-4000:]))
    return p


# ----------------------------------------------------------------------------------------
# work directory: twin + harness crate copy + generated modules
# ----------------------------------------------------------------------------------------

def module_names(srcdir):
    mods = []
    for f in sorted(os.listdir(srcdir)):
        if re.match(r'^(p|g)_[a-z0-9_]+\.rs$', f):
            mods.append(f[:-3])
    return mods


def prepare(work, generators=()):
    """regenerate the twin from /repo's working tree and lay out the harness crate"""
    if os.path.exists(work):
        shutil.rmtree(work)
    os.makedirs(work)
    twin = os.path.join(work, "twin")
    p = subprocess.run([sys.executable, os.path.join(VERIF, "tools/desync.py"), REPO, twin,
                        "--log", os.path.join(work, "desync.json")], env=ENV,
                       stdout=subprocess.PIPE, stderr=subprocess.STDOUT, text=True)
    if p.returncode != 0:
        raise Inconclusive("twin generation refused: " + p.stdout[-2000:])
    h = os.path.join(work, "harness")
    shutil.copytree(os.path.join(VERIF, "harness"), h, ignore=shutil.ignore_patterns("target", "Cargo.lock"))
    for g in generators:
        g(os.path.join(h, "src"))
    mods = module_names(os.path.join(h, "src"))
    with open(os.path.join(h, "src", "gen_mods.rs"), "w") as f:
        for m in mods:
            f.write('#[cfg(feature = "%s")]\npub mod %s;\n' % (m, m))
        f.write("#[cfg(not(kani))]\npub fn registry() -> Vec<(&'static str, usize, fn(&mut rt::Src))> {\n")
        f.write("    let mut v: Vec<(&'static str, usize, fn(&mut rt::Src))> = Vec::new();\n")
        for m in mods:
            f.write('    #[cfg(feature = "%s")]\n    v.extend_from_slice(%s::TABLE);\n' % (m, m))
        f.write("    v\n}\n")
    cargo = open(os.path.join(h, "Cargo.toml.in")).read()
    cargo = cargo.replace("@REPO@", REPO).replace("@TWIN@", "../twin")
    cargo = cargo.replace("@FEATURES@", "\n".join('%s = []' % m for m in mods))
    open(os.path.join(h, "Cargo.toml"), "w").write(cargo)
    os.remove(os.path.join(h, "Cargo.toml.in"))
    if os.path.exists(os.path.join(REPO, "Cargo.lock")):
        shutil.copy(os.path.join(REPO, "Cargo.lock"), os.path.join(h, "Cargo.lock"))
    return h


def twin_diff_summary(work):
    """per-file count of lines that differ between /repo/src and the twin (evidence)"""
    out = {}
    twin = os.path.join(work, "twin", "src")
    for root, _, files in os.walk(twin):
        for f in files:
            p = os.path.join(root, f)
            rel = os.path.relpath(p, twin)
            q = os.path.join(REPO, "src", rel)
            if not os.path.exists(q):
                out[rel] = "added"
                continue
            a = open(q).read().splitlines()
            b = open(p).read().splitlines()
            if a != b:
                import difflib
                n = sum(1 for l in difflib.unified_diff(a, b, lineterm="", n=0) if l.startswith(("+", "-")) and not l.startswith(("+++", "---")))
                out[rel] = n
    return out


# ----------------------------------------------------------------------------------------
# Kani code generation (one cargo invocation) and per-harness CBMC runs
# ----------------------------------------------------------------------------------------

def expand_modules(hdir, prefixes):
    """module prefixes from props.py -> concrete module names present in the harness crate"""
    mods = module_names(os.path.join(hdir, "src"))
    out = []
    for p in prefixes:
        hit = [m for m in mods if m == p or re.match(r"^%s_\d\d$" % re.escape(p), m)]
        if not hit:
            raise Inconclusive("no module matches " + p)
        out += hit
    return out


def _codegen_one(hdir, features, target):
    cmd = ["cargo", "kani", "--lib", "--only-codegen", "--no-assertion-reach-checks", "-Z", "stubbing",
           "--features", ",".join(features), "--target-dir", target]
    p = subprocess.run(cmd, cwd=hdir, env=ENV, stdout=subprocess.PIPE, stderr=subprocess.STDOUT, text=True)
    if p.returncode != 0:
        raise Inconclusive("kani code generation failed:\n" + p.stdout[-6000:])
    metas = sorted(glob.glob(os.path.join(target, "kani", "*", "debug", "build", "mvh", "*", "out", "mvh-*.kani-metadata.json")),
                   key=os.path.getmtime)
    if not metas:
        raise Inconclusive("no kani metadata produced")
    meta = json.load(open(metas[-1]))
    hs = []
    for h in meta["proof_harnesses"]:
        hs.append({
            "name": h["pretty_name"].split("::")[-1],
            "pretty": h["pretty_name"],
            "mangled": h["mangled_name"],
            "symtab": h["goto_file"],
            "unwind": h["attributes"].get("unwind_value"),
            "stubs": [(s["original"], s["replacement"]) for s in h["attributes"].get("stubs", [])],
            "file": h["original_file"], "line": h["original_start_line"],
        })
    return hs


def kani_codegen(hdir, features, target, groups=10):
    """Kani code generation, in parallel: the scenario modules are dealt into up to `groups`
    cargo invocations, each with its own (persistent, cached) target directory."""
    import fcntl
    t0 = time.time()
    features = list(features)
    k = max(1, min(groups, (len(features) + 1) // 2 if len(features) > 3 else 1))
    buckets = [features[i::k] for i in range(k)]
    hs = []
    # the cached target directories are shared by all checks: serialise the build phase across
    # concurrently running checks (the CBMC phase runs unlocked, on per-check copies of the goto files)
    os.makedirs(os.path.dirname(target), exist_ok=True)
    with open(target + ".lock", "w") as lk:
        fcntl.flock(lk, fcntl.LOCK_EX)
        with concurrent.futures.ThreadPoolExecutor(max_workers=k) as ex:
            futs = [ex.submit(_codegen_one, hdir, b, "%s-g%02d" % (target, i) if k > 1 else target) for i, b in enumerate(buckets)]
            for f in futs:
                hs += f.result()
        # keep this check's goto binaries out of the shared cache
        keep = os.path.join(os.path.dirname(hdir), "goto")
        os.makedirs(keep, exist_ok=True)
        for h in hs:
            base = h["symtab"][:-len(".symtab.out")]
            for ext in (".symtab.out", ".out"):
                if os.path.exists(base + ext):
                    shutil.copy(base + ext, keep)
            h["symtab"] = os.path.join(keep, os.path.basename(h["symtab"]))
        # the harness crate's own build output (one directory of symbol tables per feature set, 0.2-1 GB each)
        # is never reused -- the sources are regenerated on every run -- so it is dropped here; the
        # dependencies' artefacts, which are what the cache is for, stay
        for i in range(k):
            tdir = "%s-g%02d" % (target, i) if k > 1 else target
            for d in glob.glob(os.path.join(tdir, "kani", "*", "debug", "build", "mvh", "*")):
                shutil.rmtree(d, ignore_errors=True)
        fcntl.flock(lk, fcntl.LOCK_UN)
    return hs, time.time() - t0, "", []


def _limit(mem_gb):
    def f():
        lim = int(mem_gb * GB)
        resource.setrlimit(resource.RLIMIT_AS, (lim, lim))
        os.setsid()
    return f


def run_harness(h, outdir, timeout_s, mem_gb, extra_cbmc=()):
    """steps 2-6 of kani-driver's pipeline for one harness; returns a result dict"""
    t0 = time.time()
    res = {"name": h["name"], "unwind": h["unwind"], "status": "undecided", "reason": "", "wall_s": 0.0,
           "stubs": h.get("stubs", [])}
    base = h["symtab"][:-len(".symtab.out")]
    goto0 = base + ".out"
    goto = os.path.join(outdir, h["name"] + ".goto")
    jout = os.path.join(outdir, h["name"] + ".json")
    steps = [
        ["goto-cc", goto0, "--function", h["mangled"], "-o", goto],
        ["goto-instrument", "--add-library", "--no-malloc-may-fail", goto, goto],
        ["goto-instrument", "--generate-function-body-options", "assert-false-assume-false",
         "--generate-function-body", ".*", "--drop-unused-functions", goto, goto],
        ["goto-instrument", "--ensure-one-backedge-per-target", goto, goto],
    ]
    try:
        if not os.path.exists(goto0):
            sh(["goto-cc", h["symtab"], KANI_LIB_C, "-o", goto0])
        for st in steps:
            p = subprocess.run(st, stdout=subprocess.PIPE, stderr=subprocess.STDOUT, text=True,
                               timeout=timeout_s, preexec_fn=_limit(mem_gb))
            if p.returncode != 0:
                res["reason"] = "goto step failed: " + " ".join(st[:2]) + ": " + p.stdout[-500:]
                res["wall_s"] = time.time() - t0
                return res
        cmd = ["cbmc"] + CBMC_FLAGS
        if h["unwind"] is not None:
            cmd += ["--unwind", str(h["unwind"])]
        cmd += list(extra_cbmc) + CBMC_TAIL + [goto, "--verbosity", "9", "--json-ui"]
        tfile = jout + ".time"
        cmd = ["/usr/bin/time", "-f", "%M", "-o", tfile] + cmd
        with open(jout, "w") as jf:
            pr = subprocess.Popen(cmd, stdout=jf, stderr=subprocess.DEVNULL, preexec_fn=_limit(mem_gb))
            try:
                rc = pr.wait(timeout=max(1, timeout_s - (time.time() - t0)))
            except subprocess.TimeoutExpired:
                try:
                    os.killpg(pr.pid, 9)
                except Exception:
                    pr.kill()
                pr.wait()
                res["reason"] = "timeout after %ds" % timeout_s
                res["wall_s"] = round(time.time() - t0, 2)
                return res
        try:
            res["rss_mb"] = int(open(tfile).read().strip().splitlines()[-1]) // 1024
        except Exception:
            pass
        res["cbmc_rc"] = rc
        parse_cbmc(jout, res)
    except subprocess.TimeoutExpired:
        res["reason"] = "timeout in goto pipeline"
    except Inconclusive as e:
        res["reason"] = str(e)[:500]
    finally:
        for f in (goto,):
            if os.path.exists(f):
                os.remove(f)
    res["wall_s"] = round(time.time() - t0, 2)
    return res


def parse_cbmc(jout, res):
    try:
        data = json.load(open(jout))
    except Exception as e:
        sz = os.path.getsize(jout) if os.path.exists(jout) else -1
        res["reason"] = "cbmc output not parseable (killed / out of memory?) size=%d rc=%s" % (sz, res.get("cbmc_rc"))
        return
    steps = 0
    solver_s = 0.0
    symex_s = 0.0
    results = None
    status = None
    errors = []
    for e in data:
        if "messageText" in e:
            t = e["messageText"]
            m = re.match(r"size of program expression: (\d+) steps", t)
            if m:
                steps = int(m.group(1))
            m = re.match(r"Runtime Solver: ([0-9.e+-]+)s", t)
            if m:
                solver_s += float(m.group(1))
            m = re.match(r"Runtime Symex: ([0-9.e+-]+)s", t)
            if m:
                symex_s += float(m.group(1))
            if e.get("messageType") == "ERROR":
                errors.append(t[:300])
        if "result" in e:
            results = e["result"]
        if "cProverStatus" in e:
            status = e["cProverStatus"]
    res["symex_steps"] = steps
    res["solver_s"] = round(solver_s, 3)
    res["symex_s"] = round(symex_s, 3)
    if results is None or status is None:
        res["reason"] = "cbmc ended without a verdict: " + "; ".join(errors)[:400]
        return
    n_checks = 0
    failed = []
    covers = []
    unwind_fail = []
    for r in results:
        prop = r["property"]
        cls = prop.split(".")[-2] if "." in prop else ""
        desc = r.get("description", "")
        st = r["status"]
        if st not in ("SUCCESS", "FAILURE"):
            res.setdefault("errors", []).append("%s: %s" % (prop, st))
            continue
        if cls == "cover":
            covers.append({"desc": desc, "satisfied": st == "FAILURE",
                           "witness": extract_witness(r.get("trace")) if st == "FAILURE" else None})
            continue
        n_checks += 1
        if st == "FAILURE":
            if cls == "unwind" or "unwinding assertion" in desc or "recursion unwinding" in desc:
                unwind_fail.append(desc + " @ " + loc(r))
            else:
                failed.append({"property": prop, "desc": desc.strip('"'), "loc": loc(r),
                               "witness": extract_witness(r.get("trace"))})
    res["checks"] = n_checks
    res["covers"] = covers
    res["failed"] = failed
    res["unwind_fail"] = unwind_fail
    if res.get("errors"):
        res["status"] = "undecided"
        res["reason"] = "solver returned no verdict for %d properties (%s)" % (len(res["errors"]), res["errors"][0][:120])
    elif unwind_fail:
        res["status"] = "undecided"
        res["reason"] = "unwinding assertion failed (bound too small): " + "; ".join(unwind_fail[:3])
    elif failed:
        res["status"] = "failed"
    else:
        uns = [c["desc"] for c in covers if not c["satisfied"]]
        if uns:
            res["status"] = "vacuous"
            res["reason"] = "cover witness unsatisfied: " + "; ".join(uns[:4])
        else:
            res["status"] = "held"


def loc(r):
    s = r.get("sourceLocation", {})
    return "%s:%s in %s" % (s.get("file", "?"), s.get("line", "?"), s.get("function", "?"))


def extract_witness(trace):
    """value of the harness-local `witness` array from a CBMC trace, as hex"""
    if not trace:
        return None
    vals = {}
    for s in trace:
        if s.get("stepType") != "assignment":
            continue
        lhs = s.get("lhs", "")
        m = re.match(r"^witness\[(\d+)\]$", lhs)
        if m:
            v = s.get("value", {})
            d = v.get("data")
            try:
                vals[int(m.group(1))] = int(d) & 0xff
            except Exception:
                b = v.get("binary")
                if b:
                    vals[int(m.group(1))] = int(b, 2) & 0xff
        elif lhs == "witness":
            v = s.get("value", {})
            for el in v.get("elements", []):
                try:
                    vals[int(el["index"])] = int(el["value"]["data"]) & 0xff
                except Exception:
                    pass
    if not vals:
        return None
    n = max(vals) + 1
    return "".join("%02x" % vals.get(i, 0) for i in range(n))


def run_all(hs, outdir, jobs, budget):
    """budget(name) -> (timeout_s, mem_gb, extra_cbmc)"""
    os.makedirs(outdir, exist_ok=True)
    results = []
    with concurrent.futures.ThreadPoolExecutor(max_workers=jobs) as ex:
        futs = {}
        for h in hs:
            t, m, x = budget(h["name"])
            futs[ex.submit(run_harness, h, outdir, t, m, x)] = h
        for f in concurrent.futures.as_completed(futs):
            r = f.result()
            results.append(r)
            log("  [%s] %-44s %6.1fs steps=%s checks=%s %s" % (
                r["status"].upper(), r["name"], r["wall_s"], r.get("symex_steps", "?"), r.get("checks", "?"), r.get("reason", "")[:160]))
    results.sort(key=lambda r: r["name"])
    return results


# ----------------------------------------------------------------------------------------
# native replay against the real crate
# ----------------------------------------------------------------------------------------

def build_replay(hdir, features, target, release):
    cmd = ["cargo", "build", "--offline", "--bin", "replay", "--features", ",".join(features), "--target-dir", target]
    if release:
        cmd.append("--release")
    p = subprocess.run(cmd, cwd=hdir, env=ENV, stdout=subprocess.PIPE, stderr=subprocess.STDOUT, text=True)
    if p.returncode != 0:
        raise Inconclusive("native replay build failed:\n" + p.stdout[-4000:])
    return os.path.join(target, "release" if release else "debug", "replay")


def replay(binary, scenario, witness_hex, timeout=60):
    try:
        p = subprocess.run([binary, scenario, witness_hex or "00"], stdout=subprocess.PIPE, stderr=subprocess.PIPE,
                           text=True, timeout=timeout, preexec_fn=_limit(8))
    except subprocess.TimeoutExpired:
        return {"scenario": scenario, "status": "fail", "fails": [], "panic": "native replay did not terminate in %ds" % timeout, "covers": []}
    line = p.stdout.strip().splitlines()[-1] if p.stdout.strip() else ""
    try:
        return json.loads(line)
    except Exception:
        return {"scenario": scenario, "status": "fail", "fails": [], "covers": [],
                "panic": "replay process died rc=%d: %s" % (p.returncode, (p.stderr or "")[-300:])}
