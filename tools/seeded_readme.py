#!/usr/bin/env python3
"""Regenerate seeded/README.md from the meta.json files."""
import glob, json, os
VERIF = os.path.dirname(os.path.dirname(os.path.abspath(__file__)))
rows = []
for f in sorted(glob.glob(os.path.join(VERIF, "seeded", "*", "meta.json"))):
    m = json.load(open(f))
    sid = os.path.basename(os.path.dirname(f))
    runs = "; ".join("%s: exit %d%s" % (r["check"], r["exit"], " (%s)" % r["observed"][0].replace("violation: ", "")[:110] if r.get("observed") else (" (%s)" % r["lines"][0][:80] if r.get("lines") and r["exit"] != 0 else "")) for r in m.get("checks_run", []))
    rows.append("| %s | %s | %s | %s | %s |" % (sid, m["what"], m["needs_to_manifest"], ", ".join(m.get("detected_by", [])) or "**not detected**", runs))
out = ["# Seeded breaking changes", "",
       "Each directory holds `patch.diff` (the change), `demo.rs` (integration test that fails with the change and passes without) and `meta.json`.",
       "All were written by fresh sub-agents that saw only the property text and a scratch worktree; each was confirmed to compile, to pass the 73 library tests",
       "and to fail its demonstration. Checks were run with `tools/run_seeded.py` (scratch worktree of /repo's HEAD + patch, handed to the checks as `VERIF_REPO`).",
       "exit 1 = VIOLATION reported (counterexample replayed natively on the patched crate), exit 0 = not noticed by that check, exit 2 = inconclusive.", "",
       "| id | change | needs | detected by | runs |", "|---|---|---|---|---|"] + rows
open(os.path.join(VERIF, "seeded", "README.md"), "w").write("\n".join(out) + "\n")
print("\n".join(rows))
