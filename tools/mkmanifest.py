#!/usr/bin/env python3
"""Regenerate /verif/MANIFEST.json from tools/props.py (single source of truth)."""
import json, os, sys
sys.path.insert(0, os.path.dirname(os.path.abspath(__file__)))
import props

VERIF = os.path.dirname(os.path.dirname(os.path.abspath(__file__)))
ids = [json.loads(l)["id"] for l in open(os.path.join(VERIF, "properties.jsonl"))]
checks = []
na = []
for pid in ids:
    cfg = props.PROPS.get(pid)
    if cfg is None or cfg.get("not_applicable"):
        na.append({"property_id": pid, "reason": (cfg or {}).get("not_applicable", props.NOT_YET.get(pid, "no check built in this revision"))})
        continue
    c = {
        "property_id": pid,
        "quick_cmd": "./check %s --tier quick" % pid,
        "thorough_cmd": "./check %s --tier thorough" % pid,
        "evidence_file": "/verif/evidence/%s.json" % pid,
        "replay_cmd_template": "./check %s --replay {path}" % pid,
        "engine": "kani-cbmc",
        "level_claimed": {"category": cfg["level"], "text": cfg["claim"], "design_ref": cfg.get("design_ref", "DESIGN.md section 4, " + pid)},
        "level_note": cfg["note"],
        "technique": cfg.get("technique", "bounded symbolic execution of the compiled Rust code (Kani 0.68 -> CBMC 6.11 -> CaDiCaL), solver verdict over all witness values; counterexamples replayed natively"),
    }
    checks.append(c)
m = {
    "version": 1,
    "setup_cmd": "./tools/setup.sh",
    "hooks": {
        "guard": "kani",
        "enable": "no source hooks in /repo: `cargo kani` sets cfg(kani) for the harness crate only; the decode path is analysed on a sync twin regenerated from /repo by tools/desync.py on every run",
        "baseline_off_cmd": "cd /repo && cargo test --workspace --no-fail-fast --offline",
        "source_commits": [],
        "add_only": True,
    },
    "engines": [{"name": "kani-cbmc", "path": "/verif/check", "serves_properties": [c["property_id"] for c in checks],
                 "kind_free_text": "Kani 0.68 proof harnesses (symbolic witness array), one CBMC 6.11 + CaDiCaL process per harness run by tools/vlib.py; native replay binary for counterexamples"}],
    "checks": checks,
    "not_applicable": na,
    "notes": "exit 2 = inconclusive (undecided/vacuous harness, non-reproducing counterexample); known_findings.json lists recorded and fixed defects",
}
json.dump(m, open(os.path.join(VERIF, "MANIFEST.json"), "w"), indent=1)
print("MANIFEST.json: %d checks, %d not_applicable" % (len(checks), len(na)))
