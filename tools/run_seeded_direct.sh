#!/bin/bash
# The prescribed way of running a check against a seeded change: apply it to /repo, run, undo straight afterwards.
# usage: tools/run_seeded_direct.sh <seed-id>=<check> ...     (nothing else may be using /repo meanwhile)
cd "$(dirname "$0")/.." || exit 2
out=seeded/direct_runs.txt
for item in "$@"; do
  sid=${item%%=*}; chk=${item##*=}
  git -C /repo diff --quiet || { echo "/repo has local changes, refusing"; exit 2; }
  git -C /repo apply "$PWD/seeded/$sid/patch.diff" || { echo "$sid: patch does not apply"; continue; }
  VERIF_VIOLATIONS=/var/tmp/mqtt-verif/violations-direct ./check "$chk" --no-evidence > /var/tmp/mqtt-verif/direct.log 2>&1
  rc=$?
  git -C /repo checkout -- .
  line=$(grep -m1 "^  violation:" /var/tmp/mqtt-verif/direct.log | cut -c1-200)
  echo "$(date -u +%FT%TZ) $sid applied to /repo (git apply), ./check $chk --tier quick: exit $rc;$line; undone (git checkout -- .), /repo clean: $(git -C /repo status --porcelain | wc -l) changed files" | tee -a "$out"
done
